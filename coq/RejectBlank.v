(* RejectBlank.v — C07: blank space after the dot of a shorthand and after the two dots of a descendant segment.
   The grammar ACCEPTS these strings (pest's implicit skipping between the dot and the name); parser.rs rejects
   them.  Proved for every blank run, every shorthand name and every filter-free continuation of the query. *)
From Coq Require Import List Arith NArith ZArith Bool Lia.
From JP Require Import Base Ast Peg PegFacts NormPath NormPathFacts Dec2Bin Known Build BuildSteps NpParse NpBuild
  BaseFacts FragParse FragBuild FragWs RejectFacts RejectMore.
From JP.gen Require Import Grammar.
Import ListNotations.
Local Open Scope nat_scope.

Lemma name_head n rest : name_ok n -> exists c t, n ++ rest = c :: t /\ name_first_b c = true.
Proof. destruct n as [|c r]; [intros []|]. intros [Hc _]. exists c, (r ++ rest). split; [reflexivity|exact Hc]. Qed.

Lemma name_not_ws n rest : name_ok n -> not_ws (n ++ rest).
Proof.
  intros Hn. destruct (name_head n rest Hn) as [c [t [E Hc]]]. rewrite E. apply name_first_cases in Hc.
  cbn [not_ws]. repeat split; lia.
Qed.

Ltac rb_hook :=
  lazymatch goal with
  | |- Runs _ _ (ECall R_WHITESPACE) AAtomic _ _ _ => apply ws_fail; solve_not_ws
  | |- Runs _ _ (ECall R_S) _ _ _ _ => apply S_none; solve_not_ws
  end.
Ltac peg_hook ::= rb_hook.
Ltac solve_not_ws ::= solve [assumption | cbn [not_ws]; repeat split; lia | exact I].

Lemma wildcard_fails_name n rest pos :
  name_ok n -> RunsG 10 (ECall R_wildcard_selector) ANonAtomic (n ++ rest) pos Fail.
Proof.
  intros Hn. destruct (name_head n rest Hn) as [c [t [E Hc]]]. rewrite E. apply name_first_cases in Hc.
  destruct Hc as [H|[H|[H|[H|H]]]]; pegd_upto.
Qed.
Lemma bracketed_fails_name n rest pos :
  name_ok n -> RunsG 10 (ECall R_bracketed_selection) ANonAtomic (n ++ rest) pos Fail.
Proof.
  intros Hn. destruct (name_head n rest Hn) as [c [t [E Hc]]]. rewrite E. apply name_first_cases in Hc.
  destruct Hc as [H|[H|[H|[H|H]]]]; pegd_upto.
Qed.

(* one step of the segment repetition on  . <blanks> name *)
Lemma dot_blank_iter w n rest pos :
  blank_run w -> name_ok n -> name_stop rest ->
  RunsG (100 + (length w + length n)) seg_iter ANonAtomic (46%N :: w ++ n ++ rest) pos
        (Ok rest (pos + (1 + length w + length n))
            [Pair R_segment pos (pos + (1 + length w + length n))
                  [Pair R_child_segment pos (pos + (1 + length w + length n))
                        [Pair R_member_name_shorthand (pos + 1 + length w) (pos + (1 + length w + length n)) []]]]).
Proof.
  intros Hw Hn Hr. pose proof (name_not_ws n rest Hn) as Hnw.
  assert (Hnw0 : not_ws (46%N :: w ++ n ++ rest)) by (cbn [not_ws]; repeat split; lia).
  unfold seg_iter. eapply runs_conv.
  - eapply runs_seq.
    { apply S_none. exact Hnw0. }
    { red_res. apply skip_none. exact Hnw0. }
    { red_res. eapply runs_call; [reflexivity|]. cbn [call_atomicity].
      eapply runs_alt.
      { eapply runs_call; [reflexivity|]. cbn [call_atomicity].
        eapply runs_alt.
        { pegd. }
        { red_res. eapply runs_seq.
          { pegd. }
          { red_res. apply (skip_blanks w (n ++ rest) _ Hw Hnw). }
          { red_res. eapply runs_alt.
            { apply wildcard_fails_name. exact Hn. }
            { red_res. apply (shorthand_runs n rest _ ANonAtomic Hn Hr). } } } }
      { red_res. split; reflexivity. } }
  - norm_len. bound.
  - red_res. norm_len. repeat (first [reflexivity | lia | progress f_equal]).
Qed.

Lemma drop_blank_run w r : blank_run w -> drop_while is_blank (w ++ r) = drop_while is_blank r.
Proof.
  unfold blank_run. induction w as [|c w IH]; intros H; [reflexivity|]. cbn [forallb] in H.
  apply andb_true_iff in H. destruct H as [Hc Hw]. cbn [app drop_while].
  change (is_blank c) with (blank_b c). rewrite Hc. apply IH. exact Hw.
Qed.

Lemma str_eqb_len a b : length a <> length b -> str_eqb a b = false.
Proof.
  intros H. destruct (str_eqb a b) eqn:E; [|reflexivity]. apply str_eqb_eq in E. subst. contradiction.
Qed.

(* $.<blanks>name followed by any filter-free continuation *)
Theorem blank_after_dot_rejected w n q :
  blank_run w -> w <> [] -> name_ok n -> Forall seg_ok q ->
  parse_query (36%N :: 46%N :: w ++ n ++ segs_text q) = PErr.
Proof.
  intros Hw Hne Hn Hq. set (inp := 36%N :: 46%N :: w ++ n ++ segs_text q).
  unfold parse_query, parse_model. destruct (str_eqb inp (trim_blank inp)); [|reflexivity]. cbn [negb]. unfold parse_rule.
  pose proof (segs_text_stop q) as Hstop.
  set (e1 := 1 + (1 + length w + length n)).
  set (n1 := e1 + length (segs_text q)).
  assert (Hsegs : RunsG (300 + (length w + length n + length (segs_text q))) (ECall R_segments) ANonAtomic
                        (46%N :: w ++ n ++ segs_text q) 1
                        (Ok [] n1
                            [Pair R_segments 1 n1
                               (Pair R_segment 1 e1 [Pair R_child_segment 1 e1 [Pair R_member_name_shorthand (1 + 1 + length w) e1 []]]
                                :: segs_pairs e1 q)])).
  { eapply runs_conv.
    - eapply runs_call_normal_ok; [reflexivity|]. eapply runs_rep_some.
      + apply (dot_blank_iter w n (segs_text q) 1 Hw Hn Hstop).
      + apply reptail_segs. exact Hq.
    - lia.
    - unfold n1, e1. cbn [emits app]. repeat (first [reflexivity | lia | progress f_equal]). }
  assert (Hrun : RunsG (320 + (length w + length n + length (segs_text q))) (ECall R_main) ANonAtomic inp 0
                   (Ok [] n1 [Pair R_main 0 n1
                                [Pair R_jp_query 0 n1
                                   [Pair R_segments 1 n1
                                      (Pair R_segment 1 e1 [Pair R_child_segment 1 e1 [Pair R_member_name_shorthand (1 + 1 + length w) e1 []]]
                                       :: segs_pairs e1 q)];
                                 Pair R_EOI n1 n1 []]])).
  { unfold inp. eapply runs_conv.
    - eapply runs_call_normal_ok; [reflexivity|].
      eapply runs_seq_ok.
      + eapply runs_seq_ok.
        * apply runs_soi.
        * apply skip_none. cbn [not_ws]. repeat split; lia.
        * eapply runs_call_normal_ok; [reflexivity|].
          eapply runs_seq_ok.
          -- eapply runs_call_silent; [reflexivity|]. eapply runs_str_ok. reflexivity.
          -- apply skip_none. cbn [not_ws]. repeat split; lia.
          -- exact Hsegs.
      + apply skip_none. exact I.
      + apply runs_eoi_ok.
    - lia.
    - cbn [emits app length g_eoi grammar]. repeat (first [reflexivity | lia | progress f_equal]). }
  rewrite (Hrun (parse_fuel inp)) by (unfold parse_fuel, inp; cbn [length]; rewrite !app_length; lia).
  cbn [next_down p_kids]. unfold b_jp_query. cbn [next_down p_kids bind].
  assert (E5 : exists f, parse_fuel inp = S (S (S f))) by (exists (997 + 400 * length inp); unfold parse_fuel; lia).
  destruct E5 as [f E5]. rewrite E5. rewrite b_segments_step. cbn [p_kids mapM next_down bind].
  rewrite b_segment_step. rules.
  assert (Ei : inp = [36%N] ++ (46%N :: w ++ n) ++ segs_text q) by (unfold inp; cbn [app]; rewrite <- app_assoc; reflexivity).
  rewrite (p_str_at inp _ _ _ _ [36%N] (46%N :: w ++ n) (segs_text q) Ei eq_refl);
    [|unfold e1; cbn [length]; rewrite app_length; lia].
  cbv zeta. unfold trim_start_blank. rewrite (drop_blank_run w n Hw).
  assert (Hdn : drop_while is_blank n = n).
  { destruct n as [|c r]; [destruct Hn|]. destruct Hn as [Hc _]. cbn [drop_while].
    rewrite (name_char_not_blank c (name_first_char c Hc)). reflexivity. }
  rewrite Hdn. rewrite str_eqb_len; [reflexivity|].
  rewrite app_length. destruct w; [contradiction|]. cbn [length]. lia.
Qed.

(* ---------- ..<blanks>name ---------- *)
Lemma dotdot_blank_iter w n rest pos :
  blank_run w -> name_ok n -> name_stop rest ->
  RunsG (100 + (length w + length n)) seg_iter ANonAtomic (46%N :: 46%N :: w ++ n ++ rest) pos
        (Ok rest (pos + (2 + length w + length n))
            [Pair R_segment pos (pos + (2 + length w + length n))
                  [Pair R_descendant_segment pos (pos + (2 + length w + length n))
                        [Pair R_member_name_shorthand (pos + 2 + length w) (pos + (2 + length w + length n)) []]]]).
Proof.
  intros Hw Hn Hr. pose proof (name_not_ws n rest Hn) as Hnw.
  assert (Hnw0 : not_ws (46%N :: 46%N :: w ++ n ++ rest)) by (cbn [not_ws]; repeat split; lia).
  assert (Hnw1 : not_ws (46%N :: w ++ n ++ rest)) by (cbn [not_ws]; repeat split; lia).
  unfold seg_iter. eapply runs_conv.
  - eapply runs_seq.
    { apply S_none. exact Hnw0. }
    { red_res. apply skip_none. exact Hnw0. }
    { red_res. eapply runs_call; [reflexivity|]. cbn [call_atomicity].
      eapply runs_alt.
      { pegd. }
      { red_res. eapply runs_call; [reflexivity|]. cbn [call_atomicity].
        eapply runs_seq.
        { pegd. }
        { red_res. apply (skip_blanks w (n ++ rest) _ Hw Hnw). }
        { red_res. eapply runs_alt.
          { eapply runs_alt; [apply bracketed_fails_name; exact Hn|red_res; apply wildcard_fails_name; exact Hn]. }
          { red_res. apply (shorthand_runs n rest _ ANonAtomic Hn Hr). } } } }
  - norm_len. bound.
  - red_res. norm_len. repeat (first [reflexivity | lia | progress f_equal]).
Qed.

Theorem blank_after_dotdot_rejected w n q :
  blank_run w -> w <> [] -> name_ok n -> Forall seg_ok q ->
  parse_query (36%N :: 46%N :: 46%N :: w ++ n ++ segs_text q) = PErr.
Proof.
  intros Hw Hne Hn Hq. set (inp := 36%N :: 46%N :: 46%N :: w ++ n ++ segs_text q).
  unfold parse_query, parse_model. destruct (str_eqb inp (trim_blank inp)); [|reflexivity]. cbn [negb]. unfold parse_rule.
  pose proof (segs_text_stop q) as Hstop.
  set (e1 := 1 + (2 + length w + length n)).
  set (n1 := e1 + length (segs_text q)).
  assert (Hsegs : RunsG (300 + (length w + length n + length (segs_text q))) (ECall R_segments) ANonAtomic
                        (46%N :: 46%N :: w ++ n ++ segs_text q) 1
                        (Ok [] n1
                            [Pair R_segments 1 n1
                               (Pair R_segment 1 e1 [Pair R_descendant_segment 1 e1 [Pair R_member_name_shorthand (1 + 2 + length w) e1 []]]
                                :: segs_pairs e1 q)])).
  { eapply runs_conv.
    - eapply runs_call_normal_ok; [reflexivity|]. eapply runs_rep_some.
      + apply (dotdot_blank_iter w n (segs_text q) 1 Hw Hn Hstop).
      + apply reptail_segs. exact Hq.
    - lia.
    - unfold n1, e1. cbn [emits app]. repeat (first [reflexivity | lia | progress f_equal]). }
  assert (Hrun : RunsG (320 + (length w + length n + length (segs_text q))) (ECall R_main) ANonAtomic inp 0
                   (Ok [] n1 [Pair R_main 0 n1
                                [Pair R_jp_query 0 n1
                                   [Pair R_segments 1 n1
                                      (Pair R_segment 1 e1 [Pair R_descendant_segment 1 e1 [Pair R_member_name_shorthand (1 + 2 + length w) e1 []]]
                                       :: segs_pairs e1 q)];
                                 Pair R_EOI n1 n1 []]])).
  { unfold inp. eapply runs_conv.
    - eapply runs_call_normal_ok; [reflexivity|].
      eapply runs_seq_ok.
      + eapply runs_seq_ok.
        * apply runs_soi.
        * apply skip_none. cbn [not_ws]. repeat split; lia.
        * eapply runs_call_normal_ok; [reflexivity|].
          eapply runs_seq_ok.
          -- eapply runs_call_silent; [reflexivity|]. eapply runs_str_ok. reflexivity.
          -- apply skip_none. cbn [not_ws]. repeat split; lia.
          -- exact Hsegs.
      + apply skip_none. exact I.
      + apply runs_eoi_ok.
    - lia.
    - cbn [emits app length g_eoi grammar]. repeat (first [reflexivity | lia | progress f_equal]). }
  rewrite (Hrun (parse_fuel inp)) by (unfold parse_fuel, inp; cbn [length]; rewrite !app_length; lia).
  cbn [next_down p_kids]. unfold b_jp_query. cbn [next_down p_kids bind].
  assert (E5 : exists f, parse_fuel inp = S (S (S f))) by (exists (997 + 400 * length inp); unfold parse_fuel; lia).
  destruct E5 as [f E5]. rewrite E5. rewrite b_segments_step. cbn [p_kids mapM next_down bind].
  rewrite b_segment_step. rules.
  assert (Ei : inp = [36%N] ++ (46%N :: 46%N :: w ++ n) ++ segs_text q) by (unfold inp; cbn [app]; rewrite <- app_assoc; reflexivity).
  rewrite (p_str_at inp _ _ _ _ [36%N] (46%N :: 46%N :: w ++ n) (segs_text q) Ei eq_refl);
    [|unfold e1; cbn [length]; rewrite app_length; lia].
  destruct w as [|b w']; [contradiction|]. cbn [app nth_error].
  unfold blank_run in Hw. cbn [forallb] in Hw. apply andb_true_iff in Hw. destruct Hw as [Hb _].
  change (is_blank b) with (blank_b b). rewrite Hb. reflexivity.
Qed.

(* ---------- blank space between a function name and its opening parenthesis ---------- *)
(* The grammar accepts  match <blanks> (@,'a')  (implicit skipping inside function_expr); function_expr of parser.rs
   rejects it.  For every non-empty blank run. *)
Lemma skip_blanks_cons b w rest pos :
  blank_b b = true -> blank_run w -> not_ws rest ->
  RunsG (17 + length w) ESkip ANonAtomic (b :: w ++ rest) pos (Ok rest (pos + S (length w)) []).
Proof.
  intros Hb Hw Hr. change (b :: w ++ rest) with ((b :: w) ++ rest).
  eapply runs_conv; [apply (skip_blanks (b :: w) rest pos)| |]; try assumption.
  - unfold blank_run. cbn [forallb]. rewrite Hb. exact Hw.
  - cbn [length]. lia.
  - reflexivity.
Qed.

Ltac fb_hook :=
  lazymatch goal with
  | Hb : blank_b ?b = true, Hw : blank_run ?w |- Runs _ _ ESkip ANonAtomic (?b :: ?w ++ _) _ _ =>
      apply (skip_blanks_cons b w _ _ Hb Hw); cbn [not_ws]; repeat split; lia
  | |- Runs _ _ (ECall R_WHITESPACE) AAtomic _ _ _ => apply ws_fail; solve_not_ws
  | |- Runs _ _ (ECall R_S) _ _ _ _ => apply S_none; solve_not_ws
  end.
Ltac peg_hook ::= fb_hook.

Ltac red_core := cbn [call_result seq_result rep_result reptail_result alt_result opt_result not_result and_result skip_result
                       call_atomicity emits Nat.eqb Nat.add length]; cbv beta iota.
Ltac red_res ::= red_core; decide_eqb; red_core.


(* pegd with the outcome of every rule call normalised before it is handed upwards (fuel left as a max tree) *)
Ltac pegr :=
  first
    [ peg_hook
    | lazymatch goal with
      | |- _ = _ /\ _ = _ => split; reflexivity
      | |- Runs _ _ (EStr _) _ _ _ _ =>
          first [ eapply runs_str_ok; solve [solve_chars] | eapply runs_str_fail; solve [solve_chars] ]
      | |- Runs _ _ (ERange _ _) _ (_ :: _) _ _ =>
          first [ eapply runs_range_ok; solve [solve_chars] | eapply runs_range_fail; solve [solve_chars] ]
      | |- Runs _ _ (ERange _ _) _ [] _ _ => eapply runs_range_nil
      | |- Runs _ _ ESoi _ _ _ _ => eapply runs_soi
      | |- Runs _ _ EEoi _ [] _ _ => eapply runs_eoi_ok
      | |- Runs _ _ EEoi _ (_ :: _) _ _ => eapply runs_eoi_fail
      | |- Runs _ _ ESkip _ _ _ _ =>
          eapply runs_skip; cbv beta iota; change (g_ws grammar) with R_WHITESPACE; pegr
      | |- Runs _ _ (ESeq _ _) _ _ _ _ => eapply runs_seq; [pegr|red_res; pegr|red_res; pegr]
      | |- Runs _ _ (EAlt _ _) _ _ _ _ => eapply runs_alt; [pegr|red_res; pegr]
      | |- Runs _ _ (EOpt _) _ _ _ _ => eapply runs_opt; pegr
      | |- Runs _ _ (ERep _) _ _ _ _ => eapply runs_rep; [pegr|red_res; pegr]
      | |- Runs _ _ (ERepTail _) _ _ _ _ =>
          eapply runs_reptail; [pegr|red_res; pegr|red_res; decide_eqb; cbv beta iota; pegr]
      | |- Runs _ _ (ENot _) _ _ _ _ => eapply runs_not; pegr
      | |- Runs _ _ (EAnd _) _ _ _ _ => eapply runs_and; pegr
      | |- Runs _ _ (ECall ?r) _ _ _ _ =>
          let kb := eval cbv in (rule_of r) in
          lazymatch kb with
          | (?k, ?b) =>
              eapply runs_res;
              [ eapply (@runs_call _ grammar _ r k b); [reflexivity|cbn [call_atomicity]; pegr]
              | red_res; reflexivity ]
          end
      end ].

Definition fn_blank_tail : str := [40; 64; 44; 39; 97; 39; 41; 93]%N.    (* (@,'a')] *)

Lemma match_blank_main b w :
  blank_b b = true -> blank_run w ->
  let L := S (length w) in
  let n := 16 + L in
  RunsG (400 + length w) (ECall R_main) ANonAtomic ([36; 91; 63; 109; 97; 116; 99; 104]%N ++ b :: w ++ fn_blank_tail) 0
    (Ok [] n
      [Pair R_main 0 n
        [Pair R_jp_query 0 n [Pair R_segments 1 n [Pair R_segment 1 n [Pair R_child_segment 1 n
          [Pair R_bracketed_selection 1 n [Pair R_selector 2 (15 + L) [Pair R_filter_selector 2 (15 + L)
            [Pair R_logical_expr 3 (15 + L) [Pair R_logical_expr_and 3 (15 + L) [Pair R_atom_expr 3 (15 + L)
              [Pair R_test_expr 3 (15 + L) [Pair R_test 3 (15 + L)
                [Pair R_function_expr 3 (15 + L)
                  [Pair R_function_name 3 8 [];
                   Pair R_function_argument (9 + L) (10 + L) [Pair R_test (9 + L) (10 + L) [Pair R_rel_query (9 + L) (10 + L) [Pair R_segments (10 + L) (10 + L) []]]];
                   Pair R_function_argument (11 + L) (14 + L) [Pair R_literal (11 + L) (14 + L) [Pair R_string (11 + L) (14 + L) []]]]]]]]]]]]]]]];
         Pair R_EOI n n []]]).
Proof.
  intros Hb Hw L n. unfold fn_blank_tail. cbn [app].
  pose proof (blank_cases b Hb) as Hbc.
  eapply runs_conv; [pegr|norm_len; bound|red_res; decide_eqb; cbv beta iota; unfold n, L; norm_len; repeat (first [reflexivity | lia | progress f_equal])].
Qed.


Theorem match_blank_rejected b w :
  blank_b b = true -> blank_run w ->
  parse_query ([36; 91; 63; 109; 97; 116; 99; 104]%N ++ b :: w ++ fn_blank_tail) = PErr.
Proof.
  intros Hb Hw. set (inp := [36; 91; 63; 109; 97; 116; 99; 104]%N ++ b :: w ++ fn_blank_tail).
  unfold parse_query, parse_model. destruct (str_eqb inp (trim_blank inp)); [|reflexivity]. cbn [negb]. unfold parse_rule.
  pose proof (match_blank_main b w Hb Hw) as Hrun. cbv zeta in Hrun. fold inp in Hrun.
  rewrite (Hrun (parse_fuel inp)) by (unfold parse_fuel, inp; cbn [length app]; rewrite ?app_length; lia).
  cbn [next_down p_kids]. unfold b_jp_query. cbn [next_down p_kids bind].
  assert (E5 : exists f, parse_fuel inp = S (S (S (S (S (S (S (S (S (S (S (S f)))))))))))) by (exists (988 + 400 * length inp); unfold parse_fuel; lia).
  destruct E5 as [f E5]. rewrite E5. rewrite b_segments_step. cbn [p_kids mapM next_down bind].
  rewrite b_segment_step. rules.
  set (L := S (length w)).
  assert (Ei : inp = [36%N] ++ ([91; 63; 109; 97; 116; 99; 104]%N ++ b :: w ++ fn_blank_tail) ++ []) by (rewrite (app_nil_r ([91; 63; 109; 97; 116; 99; 104]%N ++ b :: w ++ fn_blank_tail)); reflexivity).
  erewrite (p_str_at inp _ _ _ _ [36%N] ([91; 63; 109; 97; 116; 99; 104]%N ++ b :: w ++ fn_blank_tail) []);
    [|exact Ei|reflexivity|unfold L, fn_blank_tail; cbn [length app]; rewrite ?app_length; cbn [length]; lia].
  cbv zeta. cbn [app negb str_eqb trim_start_blank drop_while next_down p_kids bind].
  rewrite b_child_segment_step. rules. cbn [p_kids mapM].
  rewrite b_selector_step. cbn [next_down p_kids bind]. rules. cbn [next_down p_kids bind].
  rewrite b_logical_expr_step. cbn [p_kids mapM]. rewrite b_logical_expr_and_step. cbn [p_kids mapM].
  rewrite b_filter_atom_step. cbn [next_down p_kids bind]. rules. cbn [p_kids existsb fold_left bind]. rules.
  rewrite b_test_step. cbn [next_down p_kids bind]. rules.
  rewrite b_function_expr_step. cbn [p_kids].
  assert (Ei2 : inp = [36; 91; 63]%N ++ ([109; 97; 116; 99; 104]%N ++ b :: w ++ [40; 64; 44; 39; 97; 39; 41]%N) ++ [93%N]).
  { unfold inp, fn_blank_tail. cbn [app]. repeat (rewrite <- app_assoc; cbn [app]). reflexivity. }
  rewrite (p_str_at inp _ _ _ _ [36; 91; 63]%N ([109; 97; 116; 99; 104]%N ++ b :: w ++ [40; 64; 44; 39; 97; 39; 41]%N) [93%N] Ei2 eq_refl);
    [|unfold L; cbn [length app]; rewrite ?app_length; cbn [length]; lia].
  change (p_str inp (Pair R_function_name 3 8 [])) with [109; 97; 116; 99; 104]%N.
  cbn [length app nth_error].
  assert (Hb40 : N.eqb b 40 = false) by (destruct (blank_cases b Hb) as [->|[->|[->| ->]]]; reflexivity).
  rewrite Hb40. reflexivity.
Qed.

(* ---------- blank space inside the brackets of a singular query in a comparison ---------- *)
(* $[?@[<blanks> selectors ]=...  : with a blank after '[' the bracket is not a singular segment (name_segment and
   index_segment are compound-atomic: no skipping inside), so the comparable is `@` alone and no operator follows it;
   read as a test, `@[ ... ]` is followed by '=' where only && || , ] may follow.  Whatever comes after the '='. *)
Ltac sb_hook :=
  lazymatch goal with
  | Hok : lbracket_ok (?b :: ?b0) ?s1 ?l ?bl |- Runs _ _ (ECall R_bracketed_selection) _ (91%N :: ?b :: _) _ _ =>
      apply (lbracket_runs (b :: b0) s1 l bl _ _ Hok)
  | |- Runs _ _ (ECall R_WHITESPACE) AAtomic _ _ _ => apply ws_fail; solve_not_ws
  | |- Runs _ _ (ECall R_S) _ _ _ _ => apply S_none; solve_not_ws
  end.
Ltac peg_hook ::= sb_hook.
Ltac solve_not_ws ::= solve [assumption | cbn [not_ws]; repeat split; lia | exact I].

Theorem blank_in_singular_bracket_rejected b b0 s1 l blast rest :
  blank_b b = true -> lbracket_ok (b :: b0) s1 l blast ->
  parse_query (36%N :: 91%N :: 63%N :: 64%N :: lbracket_text (b :: b0) s1 l blast ++ 61%N :: rest) = PErr.
Proof.
  intros Hb Hok.
  apply (main_fails_rejected _ (600 + 2 * length (lbracket_text (b :: b0) s1 l blast))).
  2:{ unfold parse_fuel. cbn [length]. rewrite app_length. cbn [length]. lia. }
  unfold lbracket_text. cbn [app].
  pose proof (blank_cases b Hb) as Hbc.
  eapply runs_conv; [pegr|unfold lbracket_text; norm_len; bound|red_res; reflexivity].
Qed.
