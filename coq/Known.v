(* Known.v — executable domain predicates and known-class classifiers.
   [names_plain q]: every name selector and string literal of the query is spelled without
   escapes (no backslash), so that the code's raw-text treatment and the RFC's decoding agree;
   the complement is the known class D7.  [doc_plain d]: no member name of the document needs
   escaping in a Normalized Path; the complement is the known class D6. *)
From Coq Require Import List NArith ZArith Bool.
From JP Require Import Base Ast.
Import ListNotations.

Definition no_bslash (s : str) : bool := forallb (fun c => negb (N.eqb c 92)) s.
Definition no_ctl (s : str) : bool := forallb (fun c => N.leb 32 c) s.

(* raw name selector text: 'body' | "body" | shorthand *)
Definition name_kind (raw : str) : N :=
  match raw with
  | c :: _ => if N.eqb c 39 then 1%N else if N.eqb c 34 then 2%N else 0%N
  | [] => 0%N
  end.
Definition quoted_ok (q : N) (raw : str) : bool :=
  match raw with
  | c :: rest =>
      match rev rest with
      | c2 :: body_rev =>
          N.eqb c q && N.eqb c2 q && forallb (fun x => negb (N.eqb x q)) body_rev
      | [] => false
      end
  | [] => false
  end.
(* a name the code and the RFC read alike *)
Definition name_plain (raw : str) : bool :=
  no_bslash raw && no_ctl raw &&
  (if N.eqb (name_kind raw) 1 then quoted_ok 39 raw
   else if N.eqb (name_kind raw) 2 then quoted_ok 34 raw
   else forallb (fun x => negb (N.eqb x 39) && negb (N.eqb x 34)) raw).
Definition name_single_or_short (raw : str) : bool := negb (N.eqb (name_kind raw) 2).
Definition lit_plain (l : literal) : bool :=
  match l with
  | LStr s => no_bslash s && no_ctl s
                && (forallb (fun x => negb (N.eqb x 39)) s || forallb (fun x => negb (N.eqb x 34)) s)
  | _ => true
  end.
Definition sqseg_ok (pn : str -> bool) (s : sqseg) : bool :=
  match s with SqName k => pn k | SqIndex _ => true end.
Definition squery_ok (pn : str -> bool) (q : squery) : bool :=
  match q with SqCur l | SqRoot l => forallb (sqseg_ok pn) l end.

Section Forall.
  Variable pn : str -> bool.        (* on name selectors *)
  Variable pl : literal -> bool.    (* on literals *)
  Fixpoint fa_segment (s : segment) : bool :=
    match s with
    | SegDesc s' => fa_segment s'
    | SegSel x => fa_selector x
    | SegSels l => fa_selectors l
    end
  with fa_selector (s : selector) : bool :=
    match s with
    | SelName k => pn k
    | SelFilter f => fa_filter f
    | _ => true
    end
  with fa_selectors (l : selectors) : bool :=
    match l with SNil => true | SCons s l' => fa_selector s && fa_selectors l' end
  with fa_segments (l : segments) : bool :=
    match l with GNil => true | GCons s l' => fa_segment s && fa_segments l' end
  with fa_filter (f : filter) : bool :=
    match f with
    | FOr l | FAnd l => fa_filters l
    | FAtom a => fa_atom a
    end
  with fa_filters (l : filters) : bool :=
    match l with FNil => true | FCons f l' => fa_filter f && fa_filters l' end
  with fa_atom (a : atom) : bool :=
    match a with
    | AFilter f _ => fa_filter f
    | ATest t _ => fa_test t
    | ACmp _ l r => fa_comparable l && fa_comparable r
    end
  with fa_comparable (c : comparable) : bool :=
    match c with
    | CLit l => pl l
    | CFn f => fa_tfun f
    | CSq q => squery_ok pn q
    end
  with fa_test (t : test) : bool :=
    match t with
    | TRel l | TAbs l => fa_segments l
    | TFn f => fa_tfun f
    end
  with fa_tfun (f : tfun) : bool :=
    match f with
    | FnCustom _ args => fa_fnargs args
    | FnLength a | FnValue a | FnCount a => fa_fnarg a
    | FnSearch a b | FnMatch a b => fa_fnarg a && fa_fnarg b
    end
  with fa_fnarg (a : fnarg) : bool :=
    match a with
    | ArgLit l => pl l
    | ArgTest t => fa_test t
    | ArgFilter f => fa_filter f
    end
  with fa_fnargs (l : fnargs) : bool :=
    match l with ANil => true | ACons a l' => fa_fnarg a && fa_fnargs l' end.
End Forall.

Definition names_plain (q : query) : bool := fa_segments name_plain lit_plain q.
(* no double-quoted name selector (their reported paths keep the double quotes: D6) *)
Definition names_single (q : query) : bool := fa_segments name_single_or_short (fun _ => true) q.

Definition docname_plain (k : str) : bool :=
  forallb (fun c => N.leb 32 c && negb (N.eqb c 39) && negb (N.eqb c 92)) k.
Fixpoint doc_plain (j : json) : bool :=
  match j with
  | JArr l => forallb doc_plain l
  | JObj m => forallb (fun kv => docname_plain (fst kv) && doc_plain (snd kv)) m
  | _ => true
  end.

(* numbers within the range where [i64 as f64] is exact (RFC 9535 2.1: I-JSON proviso) *)
Definition num_exact53 (n : num) : bool :=
  match n with NInt z => Z.ltb (Z.abs z) (2 ^ 53) | NFlt _ => true end.
Fixpoint doc_exact53 (j : json) : bool :=
  match j with
  | JNum n => num_exact53 n
  | JArr l => forallb doc_exact53 l
  | JObj m => forallb (fun kv => doc_exact53 (snd kv)) m
  | _ => true
  end.
