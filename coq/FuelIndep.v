(* FuelIndep.v — the answer of the parser model does not depend on its fuel: once the fuel parse_query supplies is
   reached, more fuel changes nothing (matcher: monotonicity + PegTerm; walk of parser.rs: every recursive call descends
   in the pair tree, whose depth is bounded by the fuel the matcher used). *)
From Coq Require Import List Arith NArith Bool Lia.
From JP Require Import Base Ast Peg PegFacts Build BuildSteps PegTerm TermCheck.
From JP.gen Require Import Grammar.
Import ListNotations.
Local Open Scope nat_scope.

Section Mono.
  Variable rname : Type.
  Variable g : peg rname.
  Notation run := (run g).

  (* a result other than OutOfFuel is stable under more fuel *)
  Lemma run_mono : forall f e a s pos r, run f e a s pos = r -> r <> OutOfFuel -> forall f', f <= f' -> run f' e a s pos = r.
  Proof.
    induction f as [|f IH]; intros e a s pos r Hr Hn f' Hf; [cbn in Hr; congruence|].
    destruct f' as [|f']; [lia|]. assert (Hf' : f <= f') by lia. clear Hf.
    assert (IH' : forall e a s pos, run f e a s pos <> OutOfFuel -> run f' e a s pos = run f e a s pos)
      by (intros e0 a0 s0 p0 H0; apply (IH e0 a0 s0 p0 _ eq_refl H0 f' Hf')).
    clear IH. subst r.
    destruct e; cbn [Peg.run] in *; try reflexivity.
    - destruct (g_rule g r) as [k body]. destruct k;
        (rewrite IH'; [reflexivity|]; intros E; rewrite E in Hn; apply Hn; reflexivity).
    - destruct (run f e1 a s pos) as [| |s1 p1 t1] eqn:E1; [rewrite IH' by congruence; rewrite E1; reflexivity|congruence|].
      rewrite IH' by congruence. rewrite E1.
      destruct (run f ESkip a s1 p1) as [| |s2 p2 t2] eqn:E2; [rewrite IH' by congruence; rewrite E2; reflexivity|congruence|].
      rewrite IH' by congruence. rewrite E2.
      destruct (run f e2 a s2 p2) as [| |s3 p3 t3] eqn:E3; [rewrite IH' by congruence; rewrite E3; reflexivity|congruence|].
      rewrite IH' by congruence. rewrite E3. reflexivity.
    - destruct (run f e1 a s pos) as [| |s1 p1 t1] eqn:E1; [|congruence|].
      + rewrite IH' by congruence. rewrite E1. apply IH'. exact Hn.
      + rewrite IH' by congruence. rewrite E1. reflexivity.
    - destruct (run f e a s pos) as [| |s1 p1 t1] eqn:E1; [|congruence|]; rewrite IH' by congruence; rewrite E1; reflexivity.
    - destruct (run f e a s pos) as [| |s1 p1 t1] eqn:E1; [|congruence|].
      + rewrite IH' by congruence. rewrite E1. reflexivity.
      + rewrite IH' by congruence. rewrite E1.
        destruct (run f (ERepTail e) a s1 p1) as [| |s2 p2 t2] eqn:E2; [|congruence|]; rewrite IH' by congruence; rewrite E2; reflexivity.
    - destruct (run f ESkip a s pos) as [| |s1 p1 t1] eqn:E1; [rewrite IH' by congruence; rewrite E1; reflexivity|congruence|].
      rewrite IH' by congruence. rewrite E1.
      destruct (run f e a s1 p1) as [| |s2 p2 t2] eqn:E2; [|congruence|].
      + rewrite IH' by congruence. rewrite E2. reflexivity.
      + rewrite IH' by congruence. rewrite E2. destruct (Nat.eqb p2 pos); [reflexivity|].
        destruct (run f (ERepTail e) a s2 p2) as [| |s3 p3 t3] eqn:E3; [|congruence|]; rewrite IH' by congruence; rewrite E3; reflexivity.
    - destruct (run f e a s pos) as [| |s1 p1 t1] eqn:E1; [|congruence|]; rewrite IH' by congruence; rewrite E1; reflexivity.
    - destruct (run f e a s pos) as [| |s1 p1 t1] eqn:E1; [|congruence|]; rewrite IH' by congruence; rewrite E1; reflexivity.
    - destruct a; try reflexivity.
      destruct (run f (ERep (ECall (g_ws g))) AAtomic s pos) as [| |s1 p1 t1] eqn:E1; [|congruence|]; rewrite IH' by congruence; rewrite E1; reflexivity.
  Qed.
End Mono.

(* ---------- the depth of the pair tree is bounded by the fuel the matcher used ---------- *)
Fixpoint pdepth (p : pair rname) : nat :=
  match p with
  | Pair _ _ _ kids => S ((fix go (l : list (pair rname)) : nat := match l with [] => 0 | k :: l' => Nat.max (pdepth k) (go l') end) kids)
  end.
Definition kids_depth (l : list (pair rname)) : nat := fold_right (fun k acc => Nat.max (pdepth k) acc) 0 l.
Lemma pdepth_eq r st en kids : pdepth (Pair r st en kids) = S (kids_depth kids).
Proof. reflexivity. Qed.
Lemma kids_depth_in l k : In k l -> pdepth k <= kids_depth l.
Proof. induction l as [|x l IH]; intros H; [destruct H|]. cbn [kids_depth fold_right]. fold (kids_depth l). destruct H as [->|H]; [lia|]. specialize (IH H). lia. Qed.
Lemma kids_depth_app l1 l2 : kids_depth (l1 ++ l2) = Nat.max (kids_depth l1) (kids_depth l2).
Proof. induction l1 as [|x l IH]; [reflexivity|]. cbn [app kids_depth fold_right]. fold (kids_depth (l ++ l2)). fold (kids_depth l). rewrite IH. lia. Qed.
Lemma kid_depth p k : In k (p_kids p) -> pdepth k < pdepth p.
Proof. destruct p as [r st en kids]. cbn [p_kids]. intros H. rewrite pdepth_eq. pose proof (kids_depth_in kids k H). lia. Qed.
Lemma next_down_depth p k : next_down p = Some k -> pdepth k < pdepth p.
Proof. unfold next_down. destruct (p_kids p) as [|x l] eqn:E; [discriminate|]. intros H. inversion H. subst. apply kid_depth. rewrite E. left. reflexivity. Qed.
Lemma pdepth_pos p : 1 <= pdepth p.
Proof. destruct p. rewrite pdepth_eq. lia. Qed.

Lemma run_depth : forall f e a s pos rest p toks,
  Peg.run grammar f e a s pos = Ok rest p toks -> kids_depth toks <= f.
Proof.
  induction f as [|f IH]; intros e a s pos rest p toks Hr; [discriminate|].
  destruct e; cbn [Peg.run] in Hr.
  - destruct (match_str s0 s); [|discriminate]. inversion Hr; subst. cbn. lia.
  - destruct s as [|c r]; [discriminate|]. destruct (N.leb lo c && N.leb c hi); [|discriminate]. inversion Hr; subst. cbn. lia.
  - destruct (g_rule grammar r) as [k body]. destruct k;
      (destruct (Peg.run grammar f body _ s pos) as [| |r1 p1 t1] eqn:E; try discriminate; inversion Hr; subst;
       pose proof (IH _ _ _ _ _ _ _ E) as Hd; try exact (le_S _ _ Hd);
       destruct (emits a); cbn [kids_depth fold_right]; rewrite ?pdepth_eq; cbn [kids_depth fold_right]; lia).
  - destruct (Peg.run grammar f e1 a s pos) as [| |s1 p1 t1] eqn:E1; try discriminate.
    destruct (Peg.run grammar f ESkip a s1 p1) as [| |s2 p2 t2] eqn:E2; try discriminate.
    destruct (Peg.run grammar f e2 a s2 p2) as [| |s3 p3 t3] eqn:E3; try discriminate. inversion Hr; subst.
    rewrite kids_depth_app. pose proof (IH _ _ _ _ _ _ _ E1). pose proof (IH _ _ _ _ _ _ _ E3). lia.
  - destruct (Peg.run grammar f e1 a s pos) as [| |s1 p1 t1] eqn:E1; try discriminate.
    + pose proof (IH _ _ _ _ _ _ _ Hr). lia.
    + inversion Hr; subst. pose proof (IH _ _ _ _ _ _ _ E1). lia.
  - destruct (Peg.run grammar f e a s pos) as [| |s1 p1 t1] eqn:E1; try discriminate.
    + inversion Hr; subst. cbn. lia.
    + inversion Hr; subst. pose proof (IH _ _ _ _ _ _ _ E1). lia.
  - destruct (Peg.run grammar f e a s pos) as [| |s1 p1 t1] eqn:E1; try discriminate.
    + inversion Hr; subst. cbn. lia.
    + destruct (Peg.run grammar f (ERepTail e) a s1 p1) as [| |s2 p2 t2] eqn:E2; try discriminate. inversion Hr; subst.
      rewrite kids_depth_app. pose proof (IH _ _ _ _ _ _ _ E1). pose proof (IH _ _ _ _ _ _ _ E2). lia.
  - destruct (Peg.run grammar f ESkip a s pos) as [| |s1 p1 t1] eqn:E1; try discriminate.
    destruct (Peg.run grammar f e a s1 p1) as [| |s2 p2 t2] eqn:E2; try discriminate.
    + inversion Hr; subst. cbn. lia.
    + destruct (Nat.eqb p2 pos); [inversion Hr; subst; cbn; lia|].
      destruct (Peg.run grammar f (ERepTail e) a s2 p2) as [| |s3 p3 t3] eqn:E3; try discriminate. inversion Hr; subst.
      rewrite kids_depth_app. pose proof (IH _ _ _ _ _ _ _ E2). pose proof (IH _ _ _ _ _ _ _ E3). lia.
  - destruct (Peg.run grammar f e a s pos) as [| |s1 p1 t1] eqn:E1; try discriminate. inversion Hr; subst. cbn. lia.
  - destruct (Peg.run grammar f e a s pos) as [| |s1 p1 t1] eqn:E1; try discriminate. inversion Hr; subst. cbn. lia.
  - destruct a.
    + destruct (Peg.run grammar f (ERep (ECall (g_ws grammar))) AAtomic s pos) as [| |s1 p1 t1] eqn:E1; try discriminate. inversion Hr; subst. cbn. lia.
    + inversion Hr; subst. cbn. lia.
    + inversion Hr; subst. cbn. lia.
  - destruct (Nat.eqb pos 0); [|discriminate]. inversion Hr; subst. cbn. lia.
  - destruct s; [|discriminate]. inversion Hr; subst. destruct (emits a); cbn; lia.
Qed.

(* ---------- the walk of parser.rs: more fuel than the depth of the pair tree changes nothing ---------- *)
Lemma mapM_ext_in {A B} (f g : A -> option B) l : (forall x, In x l -> f x = g x) -> mapM f l = mapM g l.
Proof.
  induction l as [|x l IH]; intros H; [reflexivity|]. cbn [mapM]. rewrite (H x (or_introl eq_refl)).
  rewrite IH; [reflexivity|]. intros y Hy. apply H. right. exact Hy.
Qed.
Lemma fold_left_ext_in {A B} (f g : A -> B -> A) l : forall a, (forall a x, In x l -> f a x = g a x) -> fold_left f l a = fold_left g l a.
Proof.
  induction l as [|x l IH]; intros a H; [reflexivity|]. cbn [fold_left]. rewrite (H a x (or_introl eq_refl)).
  apply IH. intros a' y Hy. apply H. right. exact Hy.
Qed.

Lemma next_down_in (p k : pair rname) : next_down p = Some k -> In k (p_kids p).
Proof. unfold next_down. destruct (p_kids p) as [|x l]; [discriminate|]. intros H. inversion H. left. reflexivity. Qed.

Section Walk.
  Variable inp : str.
  Notation pr := (pair rname).

  Definition stable (f : nat) (p : pr) : Prop :=
    forall f', f <= f' ->
      b_segments inp f' p = b_segments inp f p /\ b_segment inp f' p = b_segment inp f p
      /\ b_child_segment inp f' p = b_child_segment inp f p /\ b_selector inp f' p = b_selector inp f p
      /\ b_logical_expr inp f' p = b_logical_expr inp f p /\ b_logical_expr_and inp f' p = b_logical_expr_and inp f p
      /\ b_filter_atom inp f' p = b_filter_atom inp f p /\ b_comparable inp f' p = b_comparable inp f p
      /\ b_test inp f' p = b_test inp f p /\ b_function_expr inp f' p = b_function_expr inp f p.

  Lemma walk_stable : forall f p, pdepth p <= f -> stable f p.
  Proof.
    induction f as [|f IH]; intros p Hd; [pose proof (pdepth_pos p); lia|].
    intros f' Hf'. destruct f' as [|f']; [lia|]. assert (Hff : f <= f') by lia.
    assert (Hkid : forall k, In k (p_kids p) -> stable f k) by (intros k Hk; apply IH; pose proof (kid_depth p k Hk); lia).
    assert (Hgrand : forall k k2, In k (p_kids p) -> next_down k = Some k2 -> stable f k2).
    { intros k k2 Hk Hn. apply IH. pose proof (kid_depth p k Hk). pose proof (next_down_depth k k2 Hn). lia. }
    assert (Hgk : forall k k2, In k (p_kids p) -> In k2 (p_kids k) -> stable f k2).
    { intros k k2 Hk Hk2. apply IH. pose proof (kid_depth p k Hk). pose proof (kid_depth k k2 Hk2). lia. }
    repeat split.
    - (* segments *)
      rewrite !b_segments_step. f_equal. apply mapM_ext_in. intros r Hr.
      destruct (next_down r) as [k|] eqn:En; [|reflexivity]. cbn [bind].
      apply (Hgrand r k Hr En f' Hff).
    - (* segment *)
      rewrite !b_segment_step.
      destruct (is_rule R_child_segment p).
      + cbv zeta. match goal with |- (if ?c then _ else _) = (if ?c then _ else _) => destruct c end; [reflexivity|].
        destruct (next_down p) as [k|] eqn:En; [|reflexivity]. cbn [bind].
        apply (Hkid k (next_down_in p k En) f' Hff).
      + destruct (is_rule R_descendant_segment p); [|reflexivity].
        destruct (nth_error (p_str inp p) 2); [|reflexivity]. destruct (is_blank n); [reflexivity|].
        destruct (next_down p) as [k|] eqn:En; [|reflexivity]. cbn [bind].
        destruct (Hkid k (next_down_in p k En) f' Hff) as [_ [_ [E _]]]. rewrite E. reflexivity.
    - (* child segment *)
      rewrite !b_child_segment_step.
      destruct (is_rule R_wildcard_selector p); [reflexivity|]. destruct (is_rule R_member_name_shorthand p); [reflexivity|].
      destruct (is_rule R_bracketed_selection p); [|reflexivity]. f_equal.
      apply mapM_ext_in. intros k Hk. apply (Hkid k Hk f' Hff).
    - (* selector *)
      rewrite !b_selector_step. destruct (next_down p) as [child|] eqn:En; [|reflexivity]. cbn [bind].
      destruct (is_rule R_name_selector child); [reflexivity|]. destruct (is_rule R_wildcard_selector child); [reflexivity|].
      destruct (is_rule R_index_selector child); [reflexivity|]. destruct (is_rule R_slice_selector child); [reflexivity|].
      destruct (is_rule R_filter_selector child); [|reflexivity].
      destruct (next_down child) as [le|] eqn:En2; [|reflexivity]. cbn [bind].
      destruct (Hgrand child le (next_down_in p child En) En2 f' Hff) as [_ [_ [_ [_ [E _]]]]]. rewrite E. reflexivity.
    - (* logical_expr *)
      rewrite !b_logical_expr_step. f_equal. apply mapM_ext_in. intros k Hk. apply (Hkid k Hk f' Hff).
    - (* logical_expr_and *)
      rewrite !b_logical_expr_and_step. f_equal. apply mapM_ext_in. intros k Hk.
      destruct (Hkid k Hk f' Hff) as [_ [_ [_ [_ [_ [_ [E _]]]]]]]. rewrite E. reflexivity.
    - (* filter_atom *)
      rewrite !b_filter_atom_step. destruct (next_down p) as [rule|] eqn:En; [|reflexivity]. cbn [bind].
      pose proof (next_down_in p rule En) as Hin.
      destruct (is_rule R_paren_expr rule).
      + cbv zeta. f_equal. apply fold_left_ext_in. intros acc r Hr. destruct acc as [cur|]; [|reflexivity]. cbn [bind].
        destruct (is_rule R_logical_expr r); [|reflexivity].
        destruct (Hgk rule r Hin Hr f' Hff) as [_ [_ [_ [_ [E _]]]]]. rewrite E. reflexivity.
      + destruct (is_rule R_comp_expr rule).
        * destruct (p_kids rule) as [|l [|op [|r rest]]] eqn:Ek; try reflexivity.
          assert (Hl : In l (p_kids rule)) by (rewrite Ek; left; reflexivity).
          assert (Hr : In r (p_kids rule)) by (rewrite Ek; right; right; left; reflexivity).
          destruct (Hgk rule l Hin Hl f' Hff) as [_ [_ [_ [_ [_ [_ [_ [E1 _]]]]]]]].
          destruct (Hgk rule r Hin Hr f' Hff) as [_ [_ [_ [_ [_ [_ [_ [E2 _]]]]]]]]. rewrite E1, E2. reflexivity.
        * destruct (is_rule R_test_expr rule); [|reflexivity]. cbv zeta. f_equal.
          apply fold_left_ext_in. intros acc r Hr. destruct acc as [cur|]; [|reflexivity]. cbn [bind].
          destruct (is_rule R_test r); [|reflexivity].
          destruct (Hgk rule r Hin Hr f' Hff) as [_ [_ [_ [_ [_ [_ [_ [_ [E _]]]]]]]]]. rewrite E. reflexivity.
    - (* comparable *)
      rewrite !b_comparable_step. destruct (next_down p) as [rule|] eqn:En; [|reflexivity]. cbn [bind].
      destruct (is_rule R_literal rule); [reflexivity|]. destruct (is_rule R_singular_query rule); [reflexivity|].
      destruct (is_rule R_function_expr rule); [|reflexivity].
      destruct (Hkid rule (next_down_in p rule En) f' Hff) as [_ [_ [_ [_ [_ [_ [_ [_ [_ E]]]]]]]]]. rewrite E. reflexivity.
    - (* test *)
      rewrite !b_test_step. destruct (next_down p) as [child|] eqn:En; [|reflexivity]. cbn [bind].
      pose proof (next_down_in p child En) as Hin.
      destruct (is_rule R_jp_query child).
      + destruct (next_down child) as [sp|] eqn:En2; [|reflexivity]. cbn [bind].
        destruct (Hgrand child sp Hin En2 f' Hff) as [E _]. rewrite E. reflexivity.
      + destruct (is_rule R_rel_query child).
        * destruct (next_down child) as [sp|] eqn:En2; [|reflexivity]. cbn [bind].
          destruct (Hgrand child sp Hin En2 f' Hff) as [E _]. rewrite E. reflexivity.
        * destruct (is_rule R_function_expr child); [|reflexivity].
          destruct (Hkid child Hin f' Hff) as [_ [_ [_ [_ [_ [_ [_ [_ [_ E]]]]]]]]]. rewrite E. reflexivity.
    - (* function_expr *)
      rewrite !b_function_expr_step. cbv zeta. destruct (p_kids p) as [|name_p elems] eqn:Ek; [reflexivity|].
      destruct (match nth_error _ _ with Some c => _ | None => false end); [reflexivity|]. f_equal.
      apply mapM_ext_in. intros arg Harg.
      assert (Hin : In arg (name_p :: elems)) by (right; exact Harg).
      destruct (next_down arg) as [next|] eqn:En; [|reflexivity]. cbn [bind].
      destruct (is_rule R_literal next); [reflexivity|].
      destruct (Hgrand arg next Hin En f' Hff) as [_ [_ [_ [_ [E5 [_ [_ [_ [E9 _]]]]]]]]].
      destruct (is_rule R_test next); [rewrite E9; reflexivity|].
      destruct (is_rule R_logical_expr next); [rewrite E5; reflexivity|reflexivity].
  Qed.
End Walk.

(* ---------- the parser model's answer does not depend on its fuel ---------- *)
Lemma parse_model_stable (F : nat) (s : str) (k : nat) :
  Peg.run grammar F (ECall R_main) ANonAtomic s 0 <> OutOfFuel -> parse_model (F + k) s = parse_model F s.
Proof.
  intros Hm. unfold parse_model. destruct (negb (str_eqb s (trim_blank s))); [reflexivity|]. unfold parse_rule.
  rewrite (run_mono rname grammar F (ECall R_main) ANonAtomic s 0 _ eq_refl Hm (F + k) (Nat.le_add_r F k)).
  destruct (Peg.run grammar F (ECall R_main) ANonAtomic s 0) as [| |rest p toks] eqn:E; try reflexivity.
  destruct toks as [|main_p ts]; [reflexivity|].
  destruct (next_down main_p) as [jq|] eqn:En; [|reflexivity].
  pose proof (run_depth _ _ _ _ _ _ _ _ E) as Hd. cbn [kids_depth fold_right] in Hd.
  pose proof (next_down_depth main_p jq En) as Hj.
  unfold b_jp_query. destruct (next_down jq) as [sp|] eqn:En2; [|reflexivity]. cbn [bind].
  pose proof (next_down_depth jq sp En2) as Hs.
  assert (Hsp : pdepth sp <= F) by lia.
  destruct (walk_stable s F sp Hsp (F + k) (Nat.le_add_r F k)) as [Eseg _].
  rewrite Eseg. reflexivity.
Qed.

Theorem parse_model_fuel_independent (s : str) (k : nat) : parse_model (parse_fuel s + k) s = parse_query s.
Proof. exact (parse_model_stable (parse_fuel s) s k (main_never_out_of_fuel s)). Time Qed.
