(* TokenFacts.v — facts about EVERY token of EVERY input the generated grammar matches (PegTree.run_subtree + inversion of
   the rule): an [int] token (index selectors, slice parts, indices of singular queries) is "0" or an optional minus, a
   non-zero digit and digits - so neither a leading zero nor -0 is ever tokenised; a [string] token (name selectors, string
   literals, names of singular queries) contains no character below U+0020 - TAB, LF and CR included. *)
From Coq Require Import List Arith NArith Bool Lia.
From JP Require Import Base Ast Peg PegFacts Dec2Bin Build PegTerm PegAlpha PegTree.
From JP.gen Require Import Grammar.
Import ListNotations.
Local Open Scope nat_scope.

(* the pair tree of an input: what the matcher hands to parser.rs *)
Definition parse_tokens (s : str) : list (pair rname) :=
  match Peg.run grammar (parse_fuel s) (ECall R_main) ANonAtomic s 0 with Ok _ _ toks => toks | _ => [] end.
Definition slice (s : str) (st en : nat) : str := firstn (en - st) (skipn st s).

Lemma slice_mid (u v w : str) st en : st = length u -> en + length w = st + length (v ++ w) -> slice (u ++ v ++ w) st en = v.
Proof.
  intros -> He. unfold slice. rewrite skipn_app, skipn_all, Nat.sub_diag. cbn [skipn app].
  rewrite app_length in He. replace (en - length u) with (length v) by lia. rewrite firstn_app, Nat.sub_diag, firstn_all.
  cbn [firstn]. apply app_nil_r.
Qed.

(* a token of rule r other than EOI: its own run, its text, and the position arithmetic *)
Lemma token_run_F F s rest p toks r st en kids :
  Peg.run grammar F (ECall R_main) ANonAtomic s 0 = Ok rest p toks ->
  r <> R_EOI -> inforest rname (Pair r st en kids) toks ->
  exists f a s' rest', run grammar f (ECall r) a s' st = Ok rest' en [Pair r st en kids]
                       /\ exists v, s' = v ++ rest' /\ slice s st en = v.
Proof.
  intros E Hr Hin.
  pose proof (run_subtree rname grammar _ _ _ _ _ _ _ _ _ E Hin) as Hw. cbn [witness] in Hw.
  destruct Hw as [[H _]|[f [a [u [s' [rest' [Es [Est [_ Hrun]]]]]]]]]; [contradiction|].
  exists f, a, s', rest'. split; [exact Hrun|].
  destruct (run_prefix rname grammar _ _ _ _ _ _ _ _ Hrun) as [v [Es' Ep]]. exists v. split; [exact Es'|].
  subst s s'. apply slice_mid; [cbn [Nat.add] in Est; exact Est|]. rewrite app_length. lia.
Qed.

Lemma token_run s r st en kids :
  r <> R_EOI -> inforest rname (Pair r st en kids) (parse_tokens s) ->
  exists f a s' rest', run grammar f (ECall r) a s' st = Ok rest' en [Pair r st en kids]
                       /\ exists v, s' = v ++ rest' /\ slice s st en = v.
Proof.
  unfold parse_tokens. generalize (parse_fuel s). intros F Hr Hin.
  destruct (Peg.run grammar F (ECall R_main) ANonAtomic s 0) as [| |rest p toks] eqn:E; try destruct Hin.
  exact (token_run_F F s rest p toks r st en kids E Hr Hin).
Qed.

(* ---------- string tokens ---------- *)
Definition ge32 (c : N) : bool := N.leb 32 c.
Definition rng32 (lo hi : N) : bool := N.leb 32 lo.
Lemma rng32_ok lo hi c : rng32 lo hi = true -> N.leb lo c && N.leb c hi = true -> ge32 c = true.
Proof.
  unfold rng32, ge32. intros H1 H2. apply andb_true_iff in H2. destruct H2 as [H2 _].
  apply N.leb_le in H1. apply N.leb_le in H2. apply N.leb_le. lia.
Qed.

Lemma string_rule_checked : fst (g_rule grammar R_string) = KAtomic /\ chk rname grammar ge32 rng32 80 (snd (g_rule grammar R_string)) = true.
Proof. split; vm_compute; reflexivity. Qed.

Theorem string_token_no_control s st en kids :
  inforest rname (Pair R_string st en kids) (parse_tokens s) -> forallb ge32 (slice s st en) = true.
Proof.
  intros Hin. destruct (token_run s R_string st en kids ltac:(discriminate) Hin) as [f [a [s' [rest' [Hrun [v [Es Ev]]]]]]].
  destruct string_rule_checked as [Hk Hc].
  destruct (atomic_rule_alpha rname grammar ge32 rng32 rng32_ok f 80 R_string a s' st rest' en _ Hk Hc Hrun) as [u [Eu Hu]].
  assert (u = v) by (subst s'; apply app_inv_tail in Eu; symmetry; exact Eu). subst u. rewrite Ev. exact Hu.
Qed.

(* ---------- int tokens ---------- *)
Definition is_digit1 (c : N) : bool := N.leb 49 c && N.leb c 57.
Definition canon_int (u : str) : bool :=
  match u with
  | [] => false
  | c :: r =>
      if N.eqb c 48 then match r with [] => true | _ => false end
      else if N.eqb c 45 then match r with d :: r' => is_digit1 d && forallb is_digit r' | [] => false end
      else is_digit1 c && forallb is_digit r
  end.

Lemma digit_range_ok lo hi c : (N.eqb lo 48 && N.eqb hi 57) = true -> N.leb lo c && N.leb c hi = true -> is_digit c = true.
Proof.
  intros H1 H2. apply andb_true_iff in H1. destruct H1 as [H1 H3]. apply N.eqb_eq in H1. apply N.eqb_eq in H3. subst lo hi. exact H2.
Qed.

Lemma int_run_canonical f a s' st rest' en t :
  run grammar f (ECall R_int) a s' st = Ok rest' en t -> exists v, s' = v ++ rest' /\ canon_int v = true.
Proof.
  intros Hr. assert (Hat : AAtomic <> ANonAtomic) by discriminate.
  destruct (inv_call rname grammar _ _ _ _ _ _ _ _ Hr) as [f1 [t1 H1]].
  change (snd (g_rule grammar R_int)) with (EAlt (EStr [48]%N) (ESeq (ESeq (EOpt (EStr [45]%N)) (ECall R_DIGIT1)) (ERep (ECall R_DIGIT)))) in H1.
  change (call_atomicity (fst (g_rule grammar R_int)) a) with AAtomic in H1.
  destruct (inv_alt rname grammar _ _ _ _ _ _ _ _ _ H1) as [f2 [H2|H2]].
  - destruct (inv_str rname grammar _ _ _ _ _ _ _ _ H2) as [Es _]. exists [48%N]. split; [exact Es|reflexivity].
  - destruct (inv_seq_atomic rname grammar _ _ _ _ _ _ _ _ _ Hat H2) as [f3 [s1 [p1 [ta [tb [H3 H4]]]]]].
    destruct (inv_seq_atomic rname grammar _ _ _ _ _ _ _ _ _ Hat H3) as [f4 [s0 [p0 [tc [td [H5 H6]]]]]].
    (* the digits *)
    assert (Hd : exists ds, s1 = ds ++ rest' /\ forallb is_digit ds = true).
    { apply (run_alpha_atomic rname grammar is_digit (fun lo hi => N.eqb lo 48 && N.eqb hi 57) digit_range_ok f3 8
               (ERep (ECall R_DIGIT)) AAtomic s1 p1 rest' en tb Hat); [vm_compute; reflexivity|exact H4]. }
    destruct Hd as [ds [-> Hds]].
    (* the first digit *)
    destruct (inv_call rname grammar _ _ _ _ _ _ _ _ H6) as [f5 [te H7]].
    change (snd (g_rule grammar R_DIGIT1)) with (ERange 49 57 : expr rname) in H7.
    destruct (inv_range rname grammar _ _ _ _ _ _ _ _ _ H7) as [d [-> [Hd1 _]]].
    assert (Hn48 : N.eqb d 48 = false /\ N.eqb d 45 = false).
    { apply andb_true_iff in Hd1. destruct Hd1 as [Hd1 _]. apply N.leb_le in Hd1. split; apply N.eqb_neq; lia. }
    destruct Hn48 as [Hn48 Hn45].
    (* the sign *)
    destruct (inv_opt rname grammar _ _ _ _ _ _ _ _ H5) as [[Es0 _]|[f6 H8]].
    + exists (d :: ds). split; [rewrite <- Es0; reflexivity|]. cbn [canon_int]. rewrite Hn48, Hn45. unfold is_digit1. rewrite Hd1, Hds. reflexivity.
    + destruct (inv_str rname grammar _ _ _ _ _ _ _ _ H8) as [Es0 _]. exists (45%N :: d :: ds). split; [rewrite Es0; reflexivity|].
      cbn [canon_int N.eqb Pos.eqb]. unfold is_digit1. rewrite Hd1, Hds. reflexivity.
Qed.

Theorem int_token_canonical s st en kids :
  inforest rname (Pair R_int st en kids) (parse_tokens s) -> canon_int (slice s st en) = true.
Proof.
  intros Hin. destruct (token_run s R_int st en kids ltac:(discriminate) Hin) as [f [a [s' [rest' [Hrun [v [Es Ev]]]]]]].
  destruct (int_run_canonical _ _ _ _ _ _ _ Hrun) as [u [Eu Hu]].
  assert (u = v) by (subst s'; apply app_inv_tail in Eu; symmetry; exact Eu). subst u. rewrite Ev. exact Hu.
Qed.

(* what is excluded, spelled out *)
Lemma canon_int_no_leading_zero d r : canon_int (48%N :: d :: r) = false.
Proof. reflexivity. Qed.
Lemma canon_int_no_minus_zero r : canon_int (45%N :: 48%N :: r) = false.
Proof. reflexivity. Qed.
Print Assumptions string_token_no_control.
Print Assumptions int_token_canonical.

(* the theorems are not vacuous: $[12]['a'] has an int token at [2,4) and a string token at [6,9) *)
Definition ex_input : str := [36; 91; 49; 50; 93; 91; 39; 97; 39; 93]%N.
Example tokens_exist :
  inforest rname (Pair R_int 2 4 []) (parse_tokens ex_input) /\ inforest rname (Pair R_string 6 9 []) (parse_tokens ex_input)
  /\ slice ex_input 2 4 = [49; 50]%N /\ slice ex_input 6 9 = [39; 97; 39]%N.
Proof.
  let t := eval vm_compute in (parse_tokens ex_input) in change (parse_tokens ex_input) with t.
  cbn [inforest intree]. repeat split; tauto.
Qed.
