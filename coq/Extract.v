From Coq Require Import Extraction ExtrOcamlBasic.
From Coq Require Import ZArith NArith.
From JP Require Import Base Ast Eval ValueModel Spec NormPath Known WellFormed Regex Entry Peg Dec2Bin Build Concrete Reference RefFast.
From JP.gen Require Import Grammar.
Extraction Language OCaml.

Extraction "model.ml" m_query rfc_query cur_query np names_plain names_single doc_plain doc_exact53 wf_query parse_query rfc_parse m_reference rfc_reference m_reference_fast rfc_reference_fast set_at strict_query rx_query_ok parse_query
  wf_json lookup Z.of_nat N.of_nat Z.opp Z.mul Z.add Z.div Z.modulo N.mul N.add.
