(* GenBuild.v — parser.rs (Build.v) on the pair trees of GenParse.v, over an abstract kind of selector:
   whatever selector pair [b_selector] turns into its AST (hypothesis [b_sel]) can stand in brackets,
   segments and segment lists.  Fuel is explicit: [sfuel s] units suffice for selector s. *)
From Coq Require Import List Arith NArith ZArith Bool Lia.
From JP Require Import Base Ast Peg PegFacts NormPath NormPathFacts Dec2Bin Known Build BuildSteps
  NpParse NpBuild FragParse FragBuild GenParse BaseFacts.
From JP.gen Require Import Grammar.
Import ListNotations.
Local Open Scope nat_scope.

Section GenB.
  Variable sel : Type.
  Variable stext : sel -> str.
  Variable spair : nat -> sel -> pair rname.
  Variable sgood : sel -> Prop.            (* well-formed and in range *)
  Variable sast : sel -> selector.
  Variable sfuel : sel -> nat.
  Variable inp : str.
  Hypothesis b_sel : forall f pre s rest,
    inp = pre ++ stext s ++ rest -> sgood s -> sfuel s <= f ->
    b_selector inp (S f) (spair (length pre) s) = Some (sast s).

  Notation gseg := (gseg sel).
  Notation gseg_text := (gseg_text sel stext).
  Notation gsegs_text := (gsegs_text sel stext).
  Notation gseg_pair := (gseg_pair sel stext spair).
  Notation gsegs_pairs := (gsegs_pairs sel stext spair).
  Notation gbracket_text := (gbracket_text sel stext).
  Notation gbracket_pair := (gbracket_pair sel stext spair).
  Notation gcommas_text := (gcommas_text sel stext).
  Notation gsels_pairs := (gsels_pairs sel stext spair).

  Definition lfuel (l : list sel) : nat := fold_right (fun s acc => Nat.max (sfuel s) acc) 0 l.

  Lemma gmapM_sels f l : forall pre rest,
    inp = pre ++ gcommas_text l ++ rest -> Forall sgood l -> lfuel l <= f ->
    mapM (b_selector inp (S f)) (gsels_pairs (length pre) l) = Some (map sast l).
  Proof.
    induction l as [|s l IH]; intros pre rest Ei Hok Hf; [reflexivity|].
    pose proof (Forall_inv Hok) as Hs. pose proof (Forall_inv_tail Hok) as Hok'.
    cbn [lfuel fold_right] in Hf. fold (lfuel l) in Hf.
    unfold GenParse.gcommas_text in Ei. cbn [flat_map] in Ei. fold (gcommas_text l) in Ei.
    cbn [GenParse.gsels_pairs mapM map].
    replace (length pre + 1) with (length (pre ++ [44%N])) by (rewrite app_length; reflexivity).
    rewrite (b_sel f (pre ++ [44%N]) s (gcommas_text l ++ rest)); [|rewrite Ei; list_eq|exact Hs|lia].
    cbn [bind].
    replace (length (pre ++ [44%N]) + length (stext s)) with (length (pre ++ 44%N :: stext s))
      by (rewrite !app_length; cbn [length]; lia).
    rewrite (IH (pre ++ 44%N :: stext s) rest); [reflexivity| |exact Hok'|lia].
    rewrite Ei. list_eq.
  Qed.

  Definition gbracket_ast (s : sel) (l : list sel) : segment :=
    match l with
    | [] => SegSel (sast s)
    | _ => SegSels (selectors_of_list (map sast (s :: l)))
    end.

  Lemma gb_bracket f pre s l rest :
    inp = pre ++ gbracket_text s l ++ rest ->
    sgood s -> Forall sgood l -> Nat.max (sfuel s) (lfuel l) <= f ->
    b_child_segment inp (S (S f)) (gbracket_pair (length pre) s l) = Some (gbracket_ast s l).
  Proof.
    intros Ei Hs Hl Hf. rewrite b_child_segment_step. unfold GenParse.gbracket_pair. rules. cbn [p_kids mapM].
    unfold GenParse.gbracket_text in Ei.
    replace (length pre + 1) with (length (pre ++ [91%N])) by (rewrite app_length; reflexivity).
    rewrite (b_sel f (pre ++ [91%N]) s (gcommas_text l ++ [93%N] ++ rest)); [|rewrite Ei; list_eq|exact Hs|lia].
    cbn [bind].
    replace (length (pre ++ [91%N]) + length (stext s)) with (length (pre ++ 91%N :: stext s))
      by (rewrite !app_length; cbn [length]; lia).
    rewrite (gmapM_sels f l (pre ++ 91%N :: stext s) ([93%N] ++ rest)); [|rewrite Ei; list_eq|exact Hl|lia].
    cbn [bind]. unfold gbracket_ast. destruct l as [|s2 l]; reflexivity.
  Qed.

  Definition gseg_ast (g : gseg) : segment :=
    match g with
    | GBracket _ s l => gbracket_ast s l
    | GShort _ n => SegSel (SelName n)
    | GDotWild _ => SegSel SelWild
    | GDescBracket _ s l => SegDesc (gbracket_ast s l)
    | GDescShort _ n => SegDesc (SegSel (SelName n))
    | GDescWild _ => SegDesc (SegSel SelWild)
    end.
  Definition gseg_good (g : gseg) : Prop :=
    match g with
    | GBracket _ s l | GDescBracket _ s l => sgood s /\ Forall sgood l
    | GShort _ n | GDescShort _ n => name_ok n
    | _ => True
    end.
  Definition gfuel (g : gseg) : nat :=
    match g with
    | GBracket _ s l | GDescBracket _ s l => Nat.max (sfuel s) (lfuel l)
    | _ => 0
    end.

  Lemma gb_segment f pre g rest :
    inp = pre ++ gseg_text g ++ rest -> gseg_good g -> gfuel g <= f ->
    bind (next_down (gseg_pair (length pre) g)) (b_segment inp (S (S (S (S f))))) = Some (gseg_ast g).
  Proof.
    intros Ei Hg Hf.
    destruct g as [s l|n| |s l|n| ]; cbn [gseg_good gfuel GenParse.gseg_text gseg_ast] in *;
      unfold GenParse.gseg_pair; cbn [next_down p_kids bind GenParse.gseg_text]; rewrite b_segment_step; rules.
    - destruct Hg as [Hs Hl].
      rewrite (p_str_at inp _ _ _ _ pre (gbracket_text s l) rest Ei eq_refl eq_refl).
      unfold GenParse.gbracket_text at 1. cbv zeta. cbn [negb str_eqb trim_start_blank drop_while next_down p_kids bind].
      apply (gb_bracket (S f) pre s l rest Ei Hs Hl). lia.
    - destruct (name_trim n Hg) as [Ht Hts].
      rewrite (p_str_at inp _ _ _ _ pre (46%N :: n) rest Ei eq_refl eq_refl). cbv zeta.
      rewrite Hts, str_eqb_refl. cbn [negb next_down p_kids bind]. rewrite b_child_segment_step. rules.
      rewrite (p_str_at inp _ _ _ _ (pre ++ [46%N]) n rest); [rewrite Ht; reflexivity|rewrite Ei; list_eq|len_eq|len_eq].
    - rewrite (p_str_at inp _ _ _ _ pre [46%N; 42%N] rest Ei eq_refl eq_refl). cbv zeta.
      cbn [negb str_eqb trim_start_blank drop_while is_blank N.eqb orb andb next_down p_kids bind].
      rewrite b_child_segment_step. rules. reflexivity.
    - destruct Hg as [Hs Hl].
      rewrite (p_str_at inp _ _ _ _ pre (46%N :: 46%N :: gbracket_text s l) rest Ei eq_refl eq_refl).
      unfold GenParse.gbracket_text at 1. cbn [nth_error]. change (is_blank 91) with false. cbv iota.
      cbn [next_down p_kids bind].
      replace (length pre + 2) with (length (pre ++ [46%N; 46%N])) by len_eq.
      rewrite (gb_bracket (S f) (pre ++ [46%N; 46%N]) s l rest); [reflexivity|rewrite Ei; list_eq|assumption|assumption|lia].
    - destruct (name_trim n Hg) as [Ht Hts]. assert (Hn := Hg). destruct n as [|c r]; [destruct Hg|]. destruct Hg as [Hc _].
      rewrite (p_str_at inp _ _ _ _ pre (46%N :: 46%N :: c :: r) rest Ei eq_refl eq_refl).
      cbn [nth_error]. rewrite (name_char_not_blank c (name_first_char c Hc)).
      cbn [next_down p_kids bind]. rewrite b_child_segment_step. rules.
      rewrite (p_str_at inp _ _ _ _ (pre ++ [46%N; 46%N]) (c :: r) rest); [rewrite Ht; reflexivity|rewrite Ei; list_eq|len_eq|len_eq].
    - rewrite (p_str_at inp _ _ _ _ pre [46%N; 46%N; 42%N] rest Ei eq_refl eq_refl).
      cbn [nth_error]. change (is_blank 42) with false. cbv iota. cbn [next_down p_kids bind].
      rewrite b_child_segment_step. rules. reflexivity.
  Qed.

  Definition qfuel (q : list gseg) : nat := fold_right (fun g acc => Nat.max (gfuel g) acc) 0 q.

  Lemma gmapM_segs f q : forall pre rest,
    inp = pre ++ gsegs_text q ++ rest -> Forall gseg_good q -> qfuel q <= f ->
    mapM (fun r => bind (next_down r) (fun k => b_segment inp (S (S (S (S f)))) k)) (gsegs_pairs (length pre) q)
    = Some (map gseg_ast q).
  Proof.
    induction q as [|g q IH]; intros pre rest Ei Hok Hf; [reflexivity|].
    pose proof (Forall_inv Hok) as Hg. pose proof (Forall_inv_tail Hok) as Hok'.
    cbn [qfuel fold_right] in Hf. fold (qfuel q) in Hf.
    cbn [GenParse.gsegs_pairs mapM map]. unfold GenParse.gsegs_text in Ei. cbn [flat_map] in Ei. fold (gsegs_text q) in Ei.
    rewrite <- app_assoc in Ei.
    change (bind (next_down (gseg_pair (length pre) g)) (fun k => b_segment inp (S (S (S (S f)))) k))
      with (bind (next_down (gseg_pair (length pre) g)) (b_segment inp (S (S (S (S f)))))).
    rewrite (gb_segment f pre g (gsegs_text q ++ rest) Ei Hg); [|lia]. cbn [bind].
    replace (length pre + length (gseg_text g)) with (length (pre ++ gseg_text g)) by (rewrite app_length; reflexivity).
    rewrite (IH (pre ++ gseg_text g) rest); [reflexivity| |exact Hok'|lia].
    rewrite Ei, <- app_assoc. reflexivity.
  Qed.

  (* b_segments on the pair of the rule `segments` *)
  Lemma gb_segments f pre q rest st en :
    inp = pre ++ gsegs_text q ++ rest -> Forall gseg_good q -> qfuel q <= f ->
    b_segments inp (S (S (S (S (S f))))) (Pair R_segments st en (gsegs_pairs (length pre) q))
    = Some (segments_of_list (map gseg_ast q)).
  Proof.
    intros Ei Hok Hf. rewrite b_segments_step. cbn [p_kids].
    rewrite (gmapM_segs f q pre rest Ei Hok Hf). reflexivity.
  Qed.
End GenB.
