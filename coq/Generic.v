(* Generic.v — C15: evaluation depends only on the Queryable view of the data.
   For ANY type T with ANY implementation Q of the accessors and ANY function repr : T -> json
   that makes Q a faithful view ([faithful]: each accessor commutes with repr), evaluating a query
   over T gives, pointer by pointer, the same paths and locations and values related by repr, in
   the same order, as evaluating it over the serde_json-like instance on the represented
   document.  Proof: the evaluator is written against the accessor record only; every function
   commutes with the representation map (one mutual induction over the AST, lock-step inductions
   on fuel for the two functions that recurse on the data). *)
From Coq Require Import List NArith ZArith Bool Lia.
From JP Require Import Base Ast Eval ValueModel Spec BaseFacts DataFacts ValueFacts EvalSteps Robust.
Import ListNotations.

Section Generic.
  Variable T : Type.
  Variable Q : qops T.
  Variable repr : T -> json.
  Variable rx : str -> str -> option bool.

  Definition kvr (kv : str * T) : str * json := (fst kv, repr (snd kv)).

  Record faithful : Prop := {
    f_arr_some : forall t l, q_as_array Q t = Some l -> repr t = JArr (map repr l);
    f_arr_none : forall t, q_as_array Q t = None -> forall js, repr t <> JArr js;
    f_obj_some : forall t m, q_as_object Q t = Some m -> repr t = JObj (map kvr m);
    f_obj_none : forall t, q_as_object Q t = None -> forall m, repr t <> JObj m;
    f_str : forall t, q_as_str Q t = q_as_str J (repr t);
    (* the number a value shows through as_f64 / as_i64 together (the engine reads as_f64 and falls
       back to as_i64): an implementation may answer as_f64 for every number, as serde_json does,
       or only for floats *)
    f_num : forall t, num_of Q t = num_of J (repr t);
    f_bool : forall t, q_as_bool Q t = q_as_bool J (repr t);
    f_get : forall t k, option_map kvr (q_get Q t k) = q_get J (repr t) k;
    f_null : repr (q_null Q) = JNull;
    f_of_i64 : forall z, repr (q_of_i64 Q z) = JNum (NInt z);
    f_of_f64 : forall d, repr (q_of_f64 Q d) = JNum (NFlt d);
    f_of_bool : forall b, repr (q_of_bool Q b) = JBool b;
    f_of_str : forall s, repr (q_of_str Q s) = JStr s;
    f_eqb : forall a b, q_eqb Q a b = jeqb (repr a) (repr b);
    f_custom : forall name args, repr (q_custom Q name args) = value_custom name (map repr args);
    f_size : forall t, (jsize (repr t) <= q_size Q t)%nat
  }.
  Hypothesis F : faithful.

  Definition map_ptr (p : ptr T) : ptr json :=
    {| inner := repr (inner p); path := path p; ploc := ploc p |}.
  Definition map_data (d : data T) : data json :=
    match d with
    | DRef p => DRef (map_ptr p)
    | DRefs l => DRefs (map map_ptr l)
    | DVal v => DVal (repr v)
    | DNothing => DNothing
    end.

  (* ---------- accessors on the represented value ---------- *)
  Lemma arr_J t : q_as_array J (repr t) = option_map (map repr) (q_as_array Q t).
  Proof.
    destruct (q_as_array Q t) as [l|] eqn:E; cbn [option_map].
    - rewrite (f_arr_some F t l E). reflexivity.
    - destruct (repr t) eqn:R; try reflexivity. exfalso. eapply (f_arr_none F t E). exact R.
  Qed.
  Lemma obj_J t : q_as_object J (repr t) = option_map (map kvr) (q_as_object Q t).
  Proof.
    destruct (q_as_object Q t) as [m|] eqn:E; cbn [option_map].
    - rewrite (f_obj_some F t m E). reflexivity.
    - destruct (repr t) eqn:R; try reflexivity. exfalso. eapply (f_obj_none F t E). exact R.
  Qed.

  (* ---------- the State/Data algebra ---------- *)
  Lemma refs_map d : refs_of (map_data d) = map map_ptr (refs_of d).
  Proof. destruct d; reflexivity. Qed.

  Lemma map_reduce a b : map_data (reduce a b) = reduce (map_data a) (map_data b).
  Proof. destruct a, b; cbn [reduce map_data map]; rewrite ?map_app; reflexivity. Qed.

  Lemma map_flat_map_data (f : ptr T -> data T) (g : ptr json -> data json) d :
    (forall p, map_data (f p) = g (map_ptr p)) ->
    map_data (flat_map_data f d) = flat_map_data g (map_data d).
  Proof.
    intros H. destruct d as [p|l|v|]; cbn [flat_map_data map_data]; try reflexivity.
    - apply H.
    - f_equal. induction l as [|p l IH]; [reflexivity|]. cbn [flat_map map].
      rewrite map_app, IH. f_equal. rewrite <- refs_map, H. reflexivity.
  Qed.

  Lemma val_bool_map d : val_bool J (map_data d) = val_bool Q d.
  Proof.
    destruct d as [p|l|v|]; try reflexivity. unfold val_bool. cbn [map_data ok_val].
    rewrite <- (f_bool F v). reflexivity.
  Qed.
  Lemma d_bool_map b : map_data (d_bool Q b) = d_bool J b.
  Proof. unfold d_bool. cbn [map_data]. rewrite (f_of_bool F). reflexivity. Qed.
  Lemma d_i64_map z : map_data (d_i64 Q z) = d_i64 J z.
  Proof. unfold d_i64. cbn [map_data]. rewrite (f_of_i64 F). reflexivity. Qed.

  Lemma enum_from_map_repr {A B} (f : A -> B) l : forall i,
    enum_from i (map f l) = map (fun ie => (fst ie, f (snd ie))) (enum_from i l).
  Proof. induction l as [|x l IH]; intros i; [reflexivity|]. cbn. rewrite IH. reflexivity. Qed.

  Lemma map_ptr_idx e pth l i : map_ptr (ptr_idx e pth l i) = ptr_idx (repr e) pth l i.
  Proof. reflexivity. Qed.
  Lemma map_ptr_key v pth l k g : map_ptr (ptr_key v pth l k g) = ptr_key (repr v) pth l k g.
  Proof. reflexivity. Qed.

  (* ---------- selectors ---------- *)
  Lemma key_map p k : map_data (process_key Q p k) = process_key J (map_ptr p) k.
  Proof.
    unfold process_key. cbn [inner map_ptr]. rewrite <- (f_get F (inner p) (normalize_json_key k)).
    destruct (q_get Q (inner p) (normalize_json_key k)) as [[k' v]|]; reflexivity.
  Qed.

  Lemma get_z_map (arr : list T) i :
    get_z (map repr arr) i = option_map (fun ne => (fst ne, repr (snd ne))) (get_z arr i).
  Proof.
    unfold get_z. destruct (Z.ltb i 0); [reflexivity|]. rewrite nth_error_map.
    destruct (nth_error arr (Z.to_nat i)); reflexivity.
  Qed.

  Lemma index_map p i : map_data (process_index Q p i) = process_index J (map_ptr p) i.
  Proof.
    unfold process_index. cbn [inner map_ptr]. rewrite arr_J.
    destruct (q_as_array Q (inner p)) as [arr|]; cbn [option_map]; [|reflexivity].
    unfold len_z. rewrite map_length.
    destruct (Z.leb 0 i).
    - destruct (Z.leb (Z.of_nat (length arr)) i); [reflexivity|]. rewrite get_z_map.
      destruct (get_z arr i) as [[n e]|]; reflexivity.
    - destruct (Z.ltb (Z.of_nat (length arr)) (Z.abs i)); [reflexivity|]. rewrite get_z_map.
      destruct (get_z arr (Z.of_nat (length arr) - Z.abs i)) as [[n e]|]; reflexivity.
  Qed.

  Lemma match_map_nil {A B C} (f : A -> B) l (x y : C) :
    match map f l with [] => x | _ :: _ => y end = match l with [] => x | _ :: _ => y end.
  Proof. destruct l; reflexivity. Qed.

  Lemma wildcard_map p : map_data (process_wildcard Q p) = process_wildcard J (map_ptr p).
  Proof.
    unfold process_wildcard. cbn [inner map_ptr]. rewrite arr_J, obj_J.
    destruct (q_as_array Q (inner p)) as [arr|]; cbn [option_map].
    - rewrite match_map_nil. destruct arr as [|x arr]; [reflexivity|].
      cbn [map_data]. f_equal. rewrite enum_from_map_repr, !map_map. apply map_ext. intros [i e]. reflexivity.
    - destruct (q_as_object Q (inner p)) as [m|]; cbn [option_map]; [|reflexivity].
      rewrite match_map_nil. destruct m as [|kv m]; [reflexivity|].
      cbn [map_data]. f_equal. rewrite !map_map. apply map_ext. intros [k v]. reflexivity.
  Qed.

  Lemma filter_some_map (l : list (option (nat * T))) :
    filter_some (map (option_map (fun ne => (fst ne, repr (snd ne)))) l)
    = map (fun ne => (fst ne, repr (snd ne))) (filter_some l).
  Proof. induction l as [|[x|] l IH]; cbn; rewrite ?IH; reflexivity. Qed.

  Lemma slice_map p a b c : map_data (process_slice Q p a b c) = process_slice J (map_ptr p) a b c.
  Proof.
    unfold process_slice. cbn [inner map_ptr]. rewrite arr_J.
    destruct (q_as_array Q (inner p)) as [arr|]; cbn [option_map]; [|reflexivity].
    unfold len_z. rewrite map_length. cbn [map_data]. f_equal.
    rewrite (map_ext _ _ (get_z_map arr)). rewrite <- (map_map (get_z arr)), filter_some_map, !map_map.
    apply map_ext. intros [i e]. reflexivity.
  Qed.

  (* ---------- descendants: lock-step on fuel, then fuel irrelevance on the json side ---------- *)
  Lemma descendant_map fuel : forall p,
    map_data (process_descendant Q fuel p) = process_descendant J fuel (map_ptr p).
  Proof.
    induction fuel as [|f IH]; intros p; [reflexivity|].
    cbn [process_descendant inner map_ptr]. rewrite arr_J, obj_J.
    destruct (q_as_array Q (inner p)) as [arr|]; cbn [option_map].
    - rewrite map_reduce. f_equal.
      rewrite (map_flat_map_data (process_descendant Q f) (process_descendant J f)) by exact IH.
      f_equal. cbn [map_data]. f_equal. rewrite enum_from_map_repr, !map_map. apply map_ext. intros [i e]. reflexivity.
    - destruct (q_as_object Q (inner p)) as [m|]; cbn [option_map]; [|reflexivity].
      rewrite map_reduce. f_equal.
      rewrite (map_flat_map_data (process_descendant Q f) (process_descendant J f)) by exact IH.
      f_equal. cbn [map_data]. f_equal. rewrite !map_map. apply map_ext. intros [k v]. reflexivity.
  Qed.

  Lemma flat_map_data_ext (f g : ptr json -> data json) d :
    (forall p, In p (refs_of d) -> f p = g p) -> flat_map_data f d = flat_map_data g d.
  Proof.
    intros H. destruct d as [p|l|v|]; cbn [flat_map_data]; try reflexivity.
    - apply H. left. reflexivity.
    - f_equal. apply flat_map_ext'. intros p Hp. rewrite H by exact Hp. reflexivity.
  Qed.

  Lemma descendant_fuel_J (v : json) : forall f1 f2 (p : ptr json),
    inner p = v -> (jsize v <= f1)%nat -> (jsize v <= f2)%nat ->
    process_descendant J f1 p = process_descendant J f2 p.
  Proof.
    induction v as [| b | n | s | l IH | m IH] using json_ind'; intros f1 f2 p Hp H1 H2;
      (destruct f1 as [|f1]; [cbn [jsize] in H1; lia|]); (destruct f2 as [|f2]; [cbn [jsize] in H2; lia|]);
      cbn [process_descendant q_as_array q_as_object J value_ops]; rewrite Hp; try reflexivity.
    - f_equal. apply flat_map_data_ext. cbn [refs_of]. intros q Hq. apply in_map_iff in Hq.
      destruct Hq as [[i e] [<- Hie]]. rewrite Forall_forall in IH.
      assert (He : In e l).
      { clear -Hie. revert Hie. generalize 0%nat. induction l as [|y l IHl]; intros i0; [intros []|].
        cbn [enum_from]. intros [E|H]; [inversion E; left; reflexivity|right; eapply IHl; exact H]. }
      pose proof (jsize_in_arr e l He). apply (IH e He); [reflexivity|lia|lia].
    - f_equal. apply flat_map_data_ext. cbn [refs_of]. intros q Hq. apply in_map_iff in Hq.
      destruct Hq as [[k e] [<- Hke]]. rewrite Forall_forall in IH.
      pose proof (jsize_in_obj k e m Hke). apply (IH (k, e) Hke); [reflexivity|cbn [snd]; lia|cbn [snd]; lia].
  Qed.

  Lemma descend_map p : map_data (descend Q p) = descend J (map_ptr p).
  Proof.
    unfold descend. rewrite descendant_map. cbn [inner map_ptr q_size J value_ops].
    apply (descendant_fuel_J (repr (inner p))); [reflexivity| |]; pose proof (f_size F (inner p)); lia.
  Qed.

  (* ---------- comparison ---------- *)
  Lemma num_of_map v : num_of J (repr v) = num_of Q v.
  Proof. symmetry. apply (f_num F). Qed.

  Lemma cmp_lt_map a b : cmp_lt J (repr a) (repr b) = cmp_lt Q a b.
  Proof. unfold cmp_lt. rewrite !num_of_map, <- !(f_str F). reflexivity. Qed.

  Lemma all2_map (f : T -> T -> bool) (g : json -> json -> bool) la : forall lb,
    (forall x y, In x la -> g (repr x) (repr y) = f x y) ->
    all2 g (map repr la) (map repr lb) = all2 f la lb.
  Proof.
    induction la as [|x la IH]; intros [|y lb] H; try reflexivity. cbn [map all2].
    rewrite H by (left; reflexivity). f_equal. apply IH. intros x' y' Hx. apply H. right. exact Hx.
  Qed.

  Lemma forallb_map' {A B} (f : A -> B) (p : B -> bool) l : forallb p (map f l) = forallb (fun x => p (f x)) l.
  Proof. induction l as [|x l IH]; [reflexivity|]. cbn. rewrite IH. reflexivity. Qed.
  Lemma existsb_map' {A B} (f : A -> B) (p : B -> bool) l : existsb p (map f l) = existsb (fun x => p (f x)) l.
  Proof. induction l as [|x l IH]; [reflexivity|]. cbn. rewrite IH. reflexivity. Qed.
  Lemma existsb_ext' {A} (p q : A -> bool) l : (forall x, p x = q x) -> existsb p l = existsb q l.
  Proof. intros H. induction l as [|x l IH]; [reflexivity|]. cbn. rewrite H, IH. reflexivity. Qed.
  Lemma forallb_ext' {A} (p q : A -> bool) l : (forall x, p x = q x) -> forallb p l = forallb q l.
  Proof. intros H. induction l as [|x l IH]; [reflexivity|]. cbn. rewrite H, IH. reflexivity. Qed.

  Lemma eq_json_map fuel : forall a b, eq_json J fuel (repr a) (repr b) = eq_json Q fuel a b.
  Proof.
    induction fuel as [|f IH]; intros a b; [reflexivity|]. cbn [eq_json].
    rewrite !num_of_map, !arr_J, !obj_J.
    assert (Harr : forall la lb,
              Nat.eqb (length (map repr la)) (length (map repr lb)) && all2 (eq_json J f) (map repr la) (map repr lb)
              = Nat.eqb (length la) (length lb) && all2 (eq_json Q f) la lb).
    { intros la lb. rewrite !map_length. f_equal. apply all2_map. intros. apply IH. }
    assert (Hobj : forall ma mb,
              Nat.eqb (length (map kvr ma)) (length (map kvr mb))
              && forallb (fun '(k, x) => existsb (fun '(k2, y) => str_eqb k k2 && eq_json J f x y) (map kvr mb)) (map kvr ma)
              = Nat.eqb (length ma) (length mb)
                && forallb (fun '(k, x) => existsb (fun '(k2, y) => str_eqb k k2 && eq_json Q f x y) mb) ma).
    { intros ma mb. rewrite !map_length. f_equal. rewrite forallb_map'. apply forallb_ext'. intros [k x].
      cbn [kvr fst snd]. rewrite existsb_map'. apply existsb_ext'. intros [k2 y]. cbn [kvr fst snd]. rewrite IH. reflexivity. }
    destruct (num_of Q a) as [x|], (num_of Q b) as [y|]; try reflexivity;
      destruct (q_as_array Q a) as [la|], (q_as_array Q b) as [lb|]; cbn [option_map]; try apply Harr;
      destruct (q_as_object Q a) as [ma|], (q_as_object Q b) as [mb|]; cbn [option_map]; try apply Hobj;
      symmetry; apply (f_eqb F).
  Qed.

  Lemma eq_val_map a b : eq_val J (repr a) (repr b) = eq_val Q a b.
  Proof.
    unfold eq_val. cbn [q_size J value_ops]. rewrite <- eq_json_map.
    rewrite !eq_json_rfc; [reflexivity| |lia]. apply (f_size F).
  Qed.

  Lemma lt_data_map l r : lt_data J (map_data l) (map_data r) = lt_data Q l r.
  Proof. destruct l, r; cbn [lt_data map_data inner map_ptr]; try reflexivity; apply cmp_lt_map. Qed.

  Lemma eq_data_map l r : eq_data J (map_data l) (map_data r) = eq_data Q l r.
  Proof.
    destruct l as [p|l1|a|], r as [q|l2|b|]; cbn [eq_data map_data inner map_ptr]; try reflexivity;
      try apply eq_val_map.
    - rewrite arr_J. destruct (q_as_array Q (inner p)) as [arr|]; cbn [option_map]; [|reflexivity].
      unfold eq_arrays. rewrite !map_map, !map_length. f_equal.
      change (map (fun x => inner (map_ptr x)) l2) with (map (fun x => repr (inner x)) l2).
      rewrite <- (map_map inner repr). apply all2_map. intros. apply eq_val_map.
    - rewrite !map_length. f_equal.
      revert l2. induction l1 as [|x l1 IHl]; intros [|y l2]; try reflexivity. cbn [map all2].
      rewrite IHl. f_equal. unfold ptr_eqb. cbn [inner path map_ptr]. rewrite (f_eqb F). reflexivity.
  Qed.

  Lemma compare_data_map op l r : compare_data J op (map_data l) (map_data r) = compare_data Q op l r.
  Proof. destruct op; cbn [compare_data]; rewrite ?eq_data_map, ?lt_data_map; reflexivity. Qed.

  (* ---------- functions ---------- *)
  Lemma fn_length_map d : map_data (fn_length Q d) = fn_length J (map_data d).
  Proof.
    assert (H : forall v, map_data (match q_as_str Q v with
                                    | Some s => d_i64 Q (len_z s)
                                    | None => match q_as_array Q v with
                                              | Some l => d_i64 Q (len_z l)
                                              | None => match q_as_object Q v with
                                                        | Some m => d_i64 Q (len_z m)
                                                        | None => DNothing
                                                        end
                                              end
                                    end)
                      = match q_as_str J (repr v) with
                        | Some s => d_i64 J (len_z s)
                        | None => match q_as_array J (repr v) with
                                  | Some l => d_i64 J (len_z l)
                                  | None => match q_as_object J (repr v) with
                                            | Some m => d_i64 J (len_z m)
                                            | None => DNothing
                                            end
                                  end
                        end).
    { intros v. rewrite <- (f_str F v), arr_J, obj_J.
      destruct (q_as_str Q v); [apply d_i64_map|].
      destruct (q_as_array Q v); cbn [option_map]; [unfold len_z; rewrite map_length; apply d_i64_map|].
      destruct (q_as_object Q v); cbn [option_map]; [unfold len_z; rewrite map_length; apply d_i64_map|reflexivity]. }
    destruct d as [p|l|v|]; cbn [fn_length map_data inner map_ptr]; try apply H; try reflexivity.
    unfold len_z. rewrite map_length. apply d_i64_map.
  Qed.

  Lemma fn_count_map d : map_data (fn_count Q d) = fn_count J (map_data d).
  Proof.
    destruct d as [p|l|v|]; cbn [fn_count map_data]; try apply d_i64_map.
    unfold len_z. rewrite map_length. apply d_i64_map.
  Qed.

  Lemma fn_value_map d : map_data (fn_value d) = fn_value (map_data d).
  Proof. destruct d as [p|[|x [|y l]]|v|]; reflexivity. Qed.

  Lemma data_str_map d : data_str J (map_data d) = data_str Q d.
  Proof. destruct d as [p|l|v|]; cbn [data_str map_data inner map_ptr]; rewrite <- ?(f_str F); reflexivity. Qed.

  Lemma fn_regex_map l r b : map_data (fn_regex Q rx l r b) = fn_regex J rx (map_data l) (map_data r) b.
  Proof.
    unfold fn_regex. rewrite !data_str_map.
    destruct (data_str Q l), (data_str Q r); apply d_bool_map.
  Qed.

  Lemma custom_args_map ds : map repr (custom_args ds) = custom_args (map map_data ds).
  Proof.
    unfold custom_args. induction ds as [|d ds IH]; [reflexivity|]. cbn [flat_map map].
    rewrite map_app, IH. f_equal. destruct d as [p|l|v|]; cbn [map_data]; try reflexivity.
    rewrite !map_map. reflexivity.
  Qed.

  Lemma literal_map l : map_data (e_literal Q l) = e_literal J l.
  Proof.
    destruct l; cbn [e_literal map_data q_of_i64 q_of_f64 q_of_str q_of_bool q_null J value_ops];
      rewrite ?(f_of_i64 F), ?(f_of_f64 F), ?(f_of_str F), ?(f_of_bool F), ?(f_null F); reflexivity.
  Qed.

  Lemma sqseg_map s d : map_data (e_sqseg Q s d) = e_sqseg J s (map_data d).
  Proof.
    destruct s as [i|k]; cbn [e_sqseg].
    - apply map_flat_map_data. intros p. apply index_map.
    - apply map_flat_map_data. intros p. apply key_map.
  Qed.

  Lemma squery_map root q d :
    map_data (e_squery Q root q d) = e_squery J (repr root) q (map_data d).
  Proof.
    assert (H : forall l d0, map_data (fold_left (fun acc s => e_sqseg Q s acc) l d0)
                             = fold_left (fun acc s => e_sqseg J s acc) l (map_data d0)).
    { induction l as [|s l IH]; intros d0; [reflexivity|]. cbn [fold_left]. rewrite IH, sqseg_map. reflexivity. }
    destruct q as [l|l]; cbn [e_squery]; apply H.
  Qed.

  (* ---------- filters, given related process_elem functions ---------- *)
  Lemma filter_item_map (elQ : data T -> data T) (elJ : data json -> data json) v :
    (forall d, map_data (elQ d) = elJ (map_data d)) ->
    filter_item_of J elJ (repr v) = filter_item_of Q elQ v.
  Proof.
    intros H. unfold filter_item_of. rewrite <- val_bool_map, H. reflexivity.
  Qed.

  Lemma children_of_map elQ elJ p :
    (forall d, map_data (elQ d) = elJ (map_data d)) ->
    map_data (children_of Q elQ p) = children_of J elJ (map_ptr p).
  Proof.
    intros H. unfold children_of. cbn [inner map_ptr]. rewrite arr_J, obj_J.
    destruct (q_as_array Q (inner p)) as [arr|]; cbn [option_map].
    - cbn [map_data]. f_equal. rewrite enum_from_map_repr.
      induction (enum_from 0 arr) as [|[i e] r IH]; [reflexivity|]. cbn [map List.filter fst snd].
      rewrite (filter_item_map elQ elJ e H). destruct (filter_item_of Q elQ e); cbn [map]; rewrite IH; reflexivity.
    - destruct (q_as_object Q (inner p)) as [m|]; cbn [option_map]; [|reflexivity].
      cbn [map_data]. f_equal.
      induction m as [|[k e] r IH]; [reflexivity|]. cbn [map List.filter kvr fst snd].
      rewrite (filter_item_map elQ elJ e H). destruct (filter_item_of Q elQ e); cbn [map]; rewrite IH; reflexivity.
  Qed.

  Lemma is_internal_map p : is_internal (map_ptr p) = is_internal p.
  Proof. reflexivity. Qed.

  Lemma fproc_map elQ elJ d :
    (forall d, map_data (elQ d) = elJ (map_data d)) ->
    map_data (fproc Q elQ d) = fproc J elJ (map_data d).
  Proof.
    intros H. unfold fproc. apply map_flat_map_data. intros p. rewrite is_internal_map.
    destruct (is_internal p).
    - cbn [map_data]. rewrite (f_of_bool F). change (DRef (map_ptr p)) with (map_data (DRef p)).
      rewrite <- H, val_bool_map. reflexivity.
    - apply children_of_map. exact H.
  Qed.

  Lemma fselect_map elQ elJ d :
    (forall d, map_data (elQ d) = elJ (map_data d)) ->
    map_data (fselect Q elQ d) = fselect J elJ (map_data d).
  Proof. intros H. unfold fselect. apply map_flat_map_data. intros p. apply children_of_map. exact H. Qed.

  Lemma invert_bool_map d : map_data (invert_bool Q d) = invert_bool J (map_data d).
  Proof. unfold invert_bool. rewrite val_bool_map. apply d_bool_map. Qed.
End Generic.

(* ---------- the mutual induction over the AST ---------- *)
Section Simulation.
  Variable T : Type.
  Variable Q : qops T.
  Variable repr : T -> json.
  Variable rx : str -> str -> option bool.
  Hypothesis F : faithful T Q repr.
  Variable root : T.

  Notation MD := (map_data T repr).

  Ltac esteps := autorewrite with esteps.

  Lemma reduce_nothing {A} (x : data A) : ll x -> reduce DNothing x = x.
  Proof. destruct x; cbn; try reflexivity; contradiction. Qed.

  Lemma root_ptr_map : map_ptr T repr (root_ptr root) = root_ptr (repr root).
  Proof. reflexivity. Qed.

  Theorem simulate_all :
    (forall s d, MD (e_segment Q rx root s d) = e_segment J rx (repr root) s (MD d)) /\
    (forall s d, MD (e_selector Q rx root s d) = e_selector J rx (repr root) s (MD d)) /\
    (forall l d acc, MD (e_selectors Q rx root l d acc) = e_selectors J rx (repr root) l (MD d) (MD acc)) /\
    (forall l d, MD (e_segments Q rx root l d) = e_segments J rx (repr root) l (MD d)) /\
    (forall f d, MD (e_felem Q rx root f d) = e_felem J rx (repr root) f (MD d)) /\
    (forall l d, e_any Q rx root l d = e_any J rx (repr root) l (MD d)
                 /\ e_all Q rx root l d = e_all J rx (repr root) l (MD d)) /\
    (forall a d, MD (e_atom Q rx root a d) = e_atom J rx (repr root) a (MD d)) /\
    (forall c d, MD (e_comparable Q rx root c d) = e_comparable J rx (repr root) c (MD d)) /\
    (forall t d, MD (e_test Q rx root t d) = e_test J rx (repr root) t (MD d)) /\
    (forall f d, MD (e_tfun Q rx root f d) = e_tfun J rx (repr root) f (MD d)) /\
    (forall a d, MD (e_fnarg Q rx root a d) = e_fnarg J rx (repr root) a (MD d)) /\
    (forall l d, map MD (e_fnargs Q rx root l d) = e_fnargs J rx (repr root) l (MD d)).
  Proof.
    apply ast_mutind.
    - (* SegDesc *) intros s IH d. esteps. rewrite IH. f_equal.
      apply map_flat_map_data. intros p. apply descend_map. exact F.
    - (* SegSel *) intros x IH d. esteps. apply IH.
    - (* SegSels *) intros l IH d. destruct l as [|s0 l]; [reflexivity|]. esteps.
      specialize (IH d DNothing). autorewrite with esteps in IH.
      rewrite (reduce_nothing _ (ll_selector T Q rx root s0 d)) in IH.
      cbn [map_data] in IH.
      rewrite (reduce_nothing _ (ll_selector json J rx (repr root) s0 (MD d))) in IH. exact IH.
    - (* SelName *) intros k d. esteps. apply map_flat_map_data. intros p. apply key_map. exact F.
    - (* SelWild *) intros d. esteps. apply map_flat_map_data. intros p. apply wildcard_map. exact F.
    - (* SelIndex *) intros i d. esteps. apply map_flat_map_data. intros p. apply index_map. exact F.
    - (* SelSlice *) intros a b c d. esteps. apply map_flat_map_data. intros p. apply slice_map. exact F.
    - (* SelFilter *) intros f IH d. esteps. apply fselect_map; [exact F|exact IH].
    - (* SNil *) intros d acc. reflexivity.
    - (* SCons *) intros s IHs l IHl d acc. esteps. rewrite IHl, (map_reduce T repr), IHs. reflexivity.
    - (* GNil *) intros d. reflexivity.
    - (* GCons *) intros s IHs l IHl d. esteps. rewrite IHl, IHs. reflexivity.
    - (* FOr *) intros l IH d. esteps. rewrite (d_bool_map T Q repr F). destruct (IH d) as [-> _]. reflexivity.
    - (* FAnd *) intros l IH d. esteps. rewrite (d_bool_map T Q repr F). destruct (IH d) as [_ ->]. reflexivity.
    - (* FAtom *) intros a IH d. esteps. apply IH.
    - (* FNil *) intros d. split; reflexivity.
    - (* FCons *) intros f IHf l IHl d. esteps. destruct (IHl d) as [-> ->].
      rewrite <- (fproc_map T Q repr F _ _ d IHf), (val_bool_map T Q repr F). split; reflexivity.
    - (* AFilter *) intros f IH neg d. esteps. destruct neg.
      + rewrite (invert_bool_map T Q repr F). f_equal. apply fproc_map; [exact F|exact IH].
      + apply fproc_map; [exact F|exact IH].
    - (* ATest *) intros t IH neg d. esteps. rewrite <- IH.
      destruct (is_res_bool t).
      + destruct neg; [apply (invert_bool_map T Q repr F)|reflexivity].
      + destruct (e_test Q rx root t d) as [p|[|p ps]|v|]; cbn [map_data map];
          destruct neg; apply (d_bool_map T Q repr F).
    - (* ACmp *) intros op l IHl r IHr d. esteps. rewrite (d_bool_map T Q repr F).
      rewrite <- IHl, <- IHr, (compare_data_map T Q repr F). reflexivity.
    - (* CLit *) intros l d. esteps. apply literal_map. exact F.
    - (* CFn *) intros f IH d. esteps. apply IH.
    - (* CSq *) intros q d. esteps. apply squery_map. exact F.
    - (* TRel *) intros l IH d. esteps. apply IH.
    - (* TAbs *) intros l IH d. esteps. rewrite IH. reflexivity.
    - (* TFn *) intros f IH d. esteps. apply IH.
    - (* FnCustom *) intros name args IH d. esteps. cbn [map_data q_custom J value_ops].
      rewrite (f_custom T Q repr F), (custom_args_map T repr), IH. reflexivity.
    - (* FnLength *) intros a IH d. esteps. rewrite (fn_length_map T Q repr F), IH. reflexivity.
    - (* FnValue *) intros a IH d. esteps. rewrite (fn_value_map T repr), IH. reflexivity.
    - (* FnCount *) intros a IH d. esteps. rewrite (fn_count_map T Q repr F), IH. reflexivity.
    - (* FnSearch *) intros a IHa b IHb d. esteps. rewrite (fn_regex_map T Q repr rx F), IHa, IHb. reflexivity.
    - (* FnMatch *) intros a IHa b IHb d. esteps. rewrite (fn_regex_map T Q repr rx F), IHa, IHb. reflexivity.
    - (* ArgLit *) intros l d. esteps. apply literal_map. exact F.
    - (* ArgTest *) intros t IH d. esteps. apply IH.
    - (* ArgFilter *) intros f IH d. esteps. apply fproc_map; [exact F|exact IH].
    - (* ANil *) intros d. reflexivity.
    - (* ACons *) intros a IHa l IHl d. esteps. cbn [map]. rewrite IHa, IHl. reflexivity.
  Qed.

  (* C15: same paths, same locations, values related by repr, same order, same Ok/Err *)
  Theorem generic_evaluation (q : query) :
    option_map (map (map_ptr T repr)) (js_path_process Q rx q root)
    = js_path_process J rx q (repr root).
  Proof.
    destruct simulate_all as [_ [_ [_ [Hs _]]]]. unfold js_path_process.
    specialize (Hs q (DRef (root_ptr root))). cbn [map_data] in Hs. rewrite root_ptr_map in Hs.
    rewrite <- Hs. destruct (e_segments Q rx root q (DRef (root_ptr root))); reflexivity.
  Qed.
End Simulation.

(* non-vacuity: the shipped instance is a faithful view of itself *)
Lemma value_ops_faithful : faithful json J (fun x => x).
Proof.
  constructor; try reflexivity.
  all: try (intros t l H; destruct t; try discriminate; cbn in H; inversion H; rewrite map_id; reflexivity).
  all: try (intros t H js E; subst; discriminate).
  all: try (intros t m H; destruct t; try discriminate; cbn in H; inversion H; subst; f_equal;
            induction m as [|[k v] m IH]; [reflexivity|]; cbn; rewrite <- IH; reflexivity).
  all: try (intros t k; destruct (q_get J t k) as [[? ?]|]; reflexivity).
  all: try (intros name args; rewrite map_id; reflexivity).
  all: try (intros t; apply le_n).
Qed.

(* a genuinely different carrier: values decorated with data the accessors never show (a tag on
   every node).  It is a faithful view, so by [generic_evaluation] the tags cannot influence
   any result. *)
Inductive tagged := Tag (n : nat) (j : json).
Definition untag (t : tagged) : json := match t with Tag _ j => j end.
Definition retag (j : json) : tagged := Tag 7 j.
Definition tagged_ops : qops tagged := {|
  q_get := fun t k => option_map (fun kv => (fst kv, retag (snd kv))) (q_get J (untag t) k);
  q_as_array := fun t => option_map (map retag) (q_as_array J (untag t));
  q_as_object := fun t => option_map (map (fun kv => (fst kv, retag (snd kv)))) (q_as_object J (untag t));
  q_as_str := fun t => q_as_str J (untag t);
  q_as_i64 := fun t => q_as_i64 J (untag t);
  q_as_f64 := fun t => q_as_f64 J (untag t);
  q_as_bool := fun t => q_as_bool J (untag t);
  q_null := Tag 0 JNull;
  q_of_i64 := fun z => Tag 1 (JNum (NInt z));
  q_of_f64 := fun d => Tag 2 (JNum (NFlt d));
  q_of_bool := fun b => Tag 3 (JBool b);
  q_of_str := fun s => Tag 4 (JStr s);
  q_eqb := fun a b => jeqb (untag a) (untag b);
  q_custom := fun name args => Tag 5 (value_custom name (map untag args));
  q_size := fun t => jsize (untag t)
|}.

Lemma map_untag_retag l : map untag (map retag l) = l.
Proof. rewrite map_map. apply map_id. Qed.

Lemma tagged_faithful : faithful tagged tagged_ops untag.
Proof.
  constructor; try reflexivity.
  all: try (intros [n j] l H; cbn in H; destruct j; try discriminate; cbn in H; inversion H; subst;
            cbn [untag]; rewrite map_untag_retag; reflexivity).
  all: try (intros [n j] H js E; cbn in *; subst; discriminate).
  all: try (intros [n j] m H; cbn in H; destruct j; try discriminate; cbn in H; inversion H; subst; cbn [untag];
            f_equal; rewrite map_map;
            match goal with |- ?l = map _ ?l => induction l as [|[k v] l0 IH]; [reflexivity|]; cbn; rewrite <- IH; reflexivity end).
  all: try (intros [n j] k; cbn [q_get tagged_ops untag]; destruct (q_get J j k) as [[k' v]|]; reflexivity).
  all: try (intros name args; reflexivity).
  all: try (intros t; apply le_n).
Qed.

(* a third carrier: the same values, but with the numeric accessors of an implementation that keeps
   integers and floats apart: as_f64 answers only for floats (and for integers outside the i64
   range), as_i64 for integers.  The engine's fallback from as_f64 to as_i64 makes it a faithful
   view too. *)
Definition disjoint_as_f64 (v : json) : option dy :=
  match v with
  | JNum (NFlt d) => Some d
  | JNum (NInt z) => match value_as_i64 v with Some _ => None | None => value_as_f64 v end
  | _ => None
  end.
Definition disjoint_ops : qops json := {|
  q_get := q_get J; q_as_array := q_as_array J; q_as_object := q_as_object J; q_as_str := q_as_str J;
  q_as_i64 := q_as_i64 J; q_as_f64 := disjoint_as_f64; q_as_bool := q_as_bool J; q_null := q_null J;
  q_of_i64 := q_of_i64 J; q_of_f64 := q_of_f64 J; q_of_bool := q_of_bool J; q_of_str := q_of_str J;
  q_eqb := q_eqb J; q_custom := q_custom J; q_size := q_size J
|}.

Lemma disjoint_num v : num_of disjoint_ops v = num_of J v.
Proof.
  unfold num_of. cbn [q_as_f64 q_as_i64 disjoint_ops J value_ops].
  destruct v as [| |[z|d]| | |]; try reflexivity.
  unfold disjoint_as_f64, value_as_f64, value_as_i64.
  destruct (Z.leb i64_min z && Z.leb z i64_max); reflexivity.
Qed.

Lemma disjoint_faithful : faithful json disjoint_ops (fun x => x).
Proof.
  constructor; try reflexivity.
  all: try (intros t l H; destruct t; try discriminate; cbn in H; inversion H; rewrite map_id; reflexivity).
  all: try (intros t H js E; subst; discriminate).
  all: try (intros t m H; destruct t; try discriminate; cbn in H; inversion H; subst; f_equal;
            induction m as [|[k v] m IH]; [reflexivity|]; cbn; rewrite <- IH; reflexivity).
  all: try (intros t; apply disjoint_num).
  all: try (intros t k; cbn [q_get disjoint_ops]; destruct (q_get J t k) as [[? ?]|]; reflexivity).
  all: try (intros name args; cbn [q_custom disjoint_ops]; rewrite map_id; reflexivity).
  all: try (intros t; apply le_n).
Qed.
