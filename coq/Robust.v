(* Robust.v — C08: what a theorem can carry about "never panic, abort or hang".
   (1) Evaluation never takes js_path_process's Err arm, for every query AST whatsoever and every
       document (no well-formedness needed).
   (2) Index and slice arithmetic, re-stated with checked i64 operations (every +, -, unary -,
       abs that selector.rs performs), never overflows when start, end, step and the index are in
       the I-JSON range and the array is shorter than 2^62; so debug builds cannot panic there and
       release builds cannot wrap.
   (3) Both while-loops stop within len iterations (C11_slice_terminates).
   Stack depth, wall-clock time and the behaviour of pest / regex / serde_json are runtime facts
   observed by the harness (isolated workers, debug + release, timeouts). *)
From Coq Require Import List NArith ZArith Bool Lia.
From JP Require Import Base Ast Eval ValueModel DataFacts.
Import ListNotations.
Open Scope Z_scope.

(* ---------- (1) ---------- *)
Section NoErr.
  Variable T : Type.
  Variable Q : qops T.
  Variable rx : str -> str -> option bool.
  Variable root : T.

  Lemma ll_process_key p k : ll (process_key Q p k).
  Proof. unfold process_key. destruct (q_get Q (inner p) _) as [[? ?]|]; exact I. Qed.
  Lemma ll_process_index p i : ll (process_index Q p i).
  Proof.
    unfold process_index. destruct (q_as_array Q (inner p)) as [arr|]; [|exact I].
    destruct (Z.leb 0 i).
    - destruct (Z.leb (len_z arr) i); [exact I|]. destruct (get_z arr i) as [[? ?]|]; exact I.
    - destruct (Z.ltb (len_z arr) (Z.abs i)); [exact I|].
      destruct (get_z arr (len_z arr - Z.abs i)) as [[? ?]|]; exact I.
  Qed.
  Lemma ll_process_wildcard p : ll (process_wildcard Q p).
  Proof.
    unfold process_wildcard. destruct (q_as_array Q (inner p)) as [[|? ?]|]; try exact I.
    destruct (q_as_object Q (inner p)) as [[|? ?]|]; exact I.
  Qed.
  Lemma ll_process_slice p a b c : ll (process_slice Q p a b c).
  Proof. unfold process_slice. destruct (q_as_array Q (inner p)); exact I. Qed.
  Lemma ll_children_of elem p : ll (children_of Q elem p).
  Proof.
    unfold children_of. destruct (q_as_array Q (inner p)); [exact I|].
    destruct (q_as_object Q (inner p)); exact I.
  Qed.
  Lemma ll_descendant fuel p : ll (process_descendant Q fuel p).
  Proof.
    destruct fuel as [|f]; [exact I|]. cbn [process_descendant].
    destruct (q_as_array Q (inner p)); [apply ll_reduce|].
    destruct (q_as_object Q (inner p)); [apply ll_reduce|exact I].
  Qed.

  Lemma ll_selector s d : ll (e_selector Q rx root s d).
  Proof.
    destruct s as [k| |i|a b c|f].
    - change (ll (flat_map_data (fun p => process_key Q p k) d)). apply ll_flat_map. intros p. apply ll_process_key.
    - change (ll (flat_map_data (process_wildcard Q) d)). apply ll_flat_map. apply ll_process_wildcard.
    - change (ll (flat_map_data (fun p => process_index Q p i) d)). apply ll_flat_map. intros p. apply ll_process_index.
    - change (ll (flat_map_data (fun p => process_slice Q p a b c) d)). apply ll_flat_map. intros p. apply ll_process_slice.
    - change (ll (fselect Q (e_felem Q rx root f) d)). unfold fselect. apply ll_flat_map. intros p. apply ll_children_of.
  Qed.

  Lemma ll_selectors l : forall d acc, ll acc -> ll (e_selectors Q rx root l d acc).
  Proof.
    induction l as [|s l IH]; intros d acc Ha; [exact Ha|].
    change (ll (e_selectors Q rx root l d (reduce acc (e_selector Q rx root s d)))). apply IH. apply ll_reduce.
  Qed.

  Lemma ll_segment s : forall d, ll (e_segment Q rx root s d).
  Proof.
    induction s as [s IH|x|l]; intros d.
    - change (ll (e_segment Q rx root s (flat_map_data (descend Q) d))). apply IH.
    - apply ll_selector.
    - destruct l as [|s0 l]; [exact I|].
      change (ll (e_selectors Q rx root l d (e_selector Q rx root s0 d))). apply ll_selectors. apply ll_selector.
  Qed.

  Lemma ll_segments l : forall d, ll d -> ll (e_segments Q rx root l d).
  Proof.
    induction l as [|s l IH]; intros d Hd; [exact Hd|].
    change (ll (e_segments Q rx root l (e_segment Q rx root s d))). apply IH. apply ll_segment.
  Qed.
End NoErr.

(* evaluating ANY query AST on ANY document of ANY Queryable never yields Err *)
Theorem eval_never_errs T (Q : qops T) rx (q : query) (root : T) :
  js_path_process Q rx q root <> None.
Proof.
  unfold js_path_process. pose proof (ll_segments T Q rx root q (DRef (root_ptr root)) I) as H.
  destruct (e_segments Q rx root q (DRef (root_ptr root))); try discriminate. destruct H.
Qed.

(* ---------- (2) checked machine arithmetic of process_index / process_slice ---------- *)
Definition i64_ok (z : Z) : bool := Z.leb (- 2 ^ 63) z && Z.ltb z (2 ^ 63).
Definition chk (z : Z) : option Z := if i64_ok z then Some z else None.
Definition add64 (a b : Z) : option Z := chk (a + b).
Definition sub64 (a b : Z) : option Z := chk (a - b).
Definition neg64 (a : Z) : option Z := chk (- a).
Definition abs64 (a : Z) : option Z := chk (Z.abs a).      (* i64::abs overflows on i64::MIN *)

Definition bindo {A B} (o : option A) (f : A -> option B) : option B :=
  match o with Some x => f x | None => None end.
Notation "'do' x <- o ; f" := (bindo o (fun x => f)) (at level 200, x pattern, o at level 100, f at level 200).

(* let norm = |i| if i >= 0 { i } else { len + i } *)
Definition norm64 (len i : Z) : option Z := if Z.leb 0 i then Some i else add64 len i.

Fixpoint up_loop64 (fuel : nat) (idx upper e : Z) : option (list Z) :=
  match fuel with
  | O => Some []
  | S f =>
      if Z.ltb idx upper then
        do nxt <- add64 idx e;                       (* idx += e *)
        do rest <- up_loop64 f nxt upper e;
        Some (idx :: rest)
      else Some []
  end.
Fixpoint down_loop64 (fuel : nat) (idx lower e : Z) : option (list Z) :=
  match fuel with
  | O => Some []
  | S f =>
      if Z.ltb lower idx then
        do nxt <- add64 idx e;
        do rest <- down_loop64 f nxt lower e;
        Some (idx :: rest)
      else Some []
  end.

Definition slice_indices64 (len : Z) (start end_ step : option Z) : option (list Z) :=
  let e := opt_or step 1 in
  if Z.ltb 0 e then
    do n_start <- norm64 len (opt_or start 0);
    do n_end <- norm64 len (opt_or end_ len);
    let lower := Z.min (Z.max n_start 0) len in
    let upper := Z.min (Z.max n_end 0) len in
    up_loop64 (S (Z.to_nat len)) lower upper e
  else if Z.ltb e 0 then
    do lm1 <- sub64 len 1;                          (* len - 1 *)
    do nl <- neg64 len;                             (* -len *)
    do nlm1 <- sub64 nl 1;                          (* -len - 1 *)
    do n_start <- norm64 len (opt_or start lm1);
    do n_end <- norm64 len (opt_or end_ nlm1);
    let lower := Z.min (Z.max n_end (-1)) lm1 in
    let upper := Z.min (Z.max n_start (-1)) lm1 in
    down_loop64 (S (Z.to_nat len)) upper lower e
  else Some [].

Definition ij (z : Z) : Prop := - (2 ^ 53 - 1) <= z <= 2 ^ 53 - 1.
Definition oij (o : option Z) : Prop := match o with Some z => ij z | None => True end.

Lemma chk_ok z : - 2 ^ 63 <= z < 2 ^ 63 -> chk z = Some z.
Proof.
  intros H. unfold chk, i64_ok.
  destruct (Z.leb_spec (- 2 ^ 63) z); [|lia]. destruct (Z.ltb_spec z (2 ^ 63)); [reflexivity|lia].
Qed.

Lemma up_loop64_ok fuel : forall idx upper e,
  0 <= idx -> upper < 2 ^ 62 -> 0 < e < 2 ^ 53 ->
  up_loop64 fuel idx upper e = Some (up_loop fuel idx upper e).
Proof.
  induction fuel as [|f IH]; intros idx upper e Hi Hu He; [reflexivity|].
  cbn [up_loop64 up_loop]. destruct (Z.ltb_spec idx upper); [|reflexivity].
  unfold add64. rewrite chk_ok by lia. cbn [bindo]. rewrite IH by lia. reflexivity.
Qed.
Lemma down_loop64_ok fuel : forall idx lower e,
  idx < 2 ^ 62 -> -1 <= lower -> - 2 ^ 53 < e < 0 ->
  down_loop64 fuel idx lower e = Some (down_loop fuel idx lower e).
Proof.
  induction fuel as [|f IH]; intros idx lower e Hi Hl He; [reflexivity|].
  cbn [down_loop64 down_loop]. destruct (Z.ltb_spec lower idx); [|reflexivity].
  unfold add64. rewrite chk_ok by lia. cbn [bindo]. rewrite IH by lia. reflexivity.
Qed.

(* no intermediate of process_slice leaves the i64 range *)
Theorem slice_arith_in_range len start end_ step :
  0 <= len < 2 ^ 62 -> oij start -> oij end_ -> oij step ->
  slice_indices64 len start end_ step = Some (slice_indices len start end_ step).
Proof.
  intros Hlen Hs He Hst. unfold slice_indices64, slice_indices.
  assert (Hstep : ij (opt_or step 1)) by (destruct step; cbn in *; unfold ij in *; lia).
  set (e := opt_or step 1) in *. unfold ij in Hstep. clearbody e.
  assert (P53 : 2 ^ 53 = 9007199254740992) by reflexivity.
  assert (P62 : 2 ^ 62 = 4611686018427387904) by reflexivity.
  assert (P63 : 2 ^ 63 = 9223372036854775808) by reflexivity.
  assert (Hnorm : forall i, - 2 ^ 62 <= i <= 2 ^ 62 -> norm64 len i = Some (if Z.leb 0 i then i else len + i)).
  { intros i Hi. unfold norm64. destruct (Z.leb_spec 0 i); [reflexivity|]. unfold add64. rewrite chk_ok by lia. reflexivity. }
  destruct (Z.ltb_spec 0 e) as [Hpos|Hnpos].
  - assert (H1 : - 2 ^ 62 <= opt_or start 0 <= 2 ^ 62) by (destruct start; cbn in *; unfold ij in *; lia).
    assert (H2 : - 2 ^ 62 <= opt_or end_ len <= 2 ^ 62) by (destruct end_; cbn in *; unfold ij in *; lia).
    rewrite (Hnorm _ H1), (Hnorm _ H2). cbn [bindo]. apply up_loop64_ok; lia.
  - destruct (Z.ltb_spec e 0) as [Hneg|Hz]; [|reflexivity].
    unfold sub64, neg64. rewrite (chk_ok (len - 1)) by lia. cbn [bindo].
    rewrite (chk_ok (- len)) by lia. cbn [bindo]. rewrite (chk_ok (- len - 1)) by lia. cbn [bindo].
    assert (H1 : - 2 ^ 62 <= opt_or start (len - 1) <= 2 ^ 62) by (destruct start; cbn in *; unfold ij in *; lia).
    assert (H2 : - 2 ^ 62 <= opt_or end_ (- len - 1) <= 2 ^ 62) by (destruct end_; cbn in *; unfold ij in *; lia).
    rewrite (Hnorm _ H1), (Hnorm _ H2). cbn [bindo]. apply down_loop64_ok; lia.
Qed.

(* process_index: idx.abs() and array.len() - abs_idx stay in range; array[i] is in bounds *)
Definition index_checked (len idx : Z) : option (option Z) :=
  if Z.leb 0 idx then (if Z.leb len idx then Some None else Some (Some idx))
  else
    do a <- abs64 idx;
    if Z.ltb len a then Some None else do i <- sub64 len a; Some (Some i).

Theorem index_arith_in_range len idx :
  0 <= len < 2 ^ 62 -> ij idx ->
  exists r, index_checked len idx = Some r /\
            match r with Some i => 0 <= i < len | None => True end.
Proof.
  intros Hlen Hi. unfold index_checked, ij in *.
  assert (P53 : 2 ^ 53 = 9007199254740992) by reflexivity.
  assert (P62 : 2 ^ 62 = 4611686018427387904) by reflexivity.
  assert (P63 : 2 ^ 63 = 9223372036854775808) by reflexivity.
  destruct (Z.leb_spec 0 idx).
  - destruct (Z.leb_spec len idx); eexists; (split; [reflexivity|]); [exact I|cbv beta iota; lia].
  - unfold abs64. rewrite chk_ok by lia. cbn [bindo]. destruct (Z.ltb_spec len (Z.abs idx)).
    + eexists. split; [reflexivity|exact I].
    + unfold sub64. rewrite chk_ok by lia. cbn [bindo]. eexists. split; [reflexivity|cbv beta iota; lia].
Qed.
