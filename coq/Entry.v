(* Entry.v — the closed entry points that the extracted driver calls (and that the property
   theorems are about): the model of the public API at the serde_json::Value instance, and the
   RFC semantics. *)
From Coq Require Import List NArith ZArith Bool.
From JP Require Import Base Ast Eval ValueModel Spec NormPath Known Regex.
Import ListNotations.

Definition mptr := ptr json.

(* model of js_path_process::<Value> *)
Definition m_query (q : query) (d : json) : option (list mptr) :=
  js_path_process value_ops rx_model_search q d.

(* RFC 9535 nodelist of the query *)
Definition s_query (major : bool) (q : query) (d : json) : list node :=
  r_query rx_spec_full rx_spec_sub jeqb major d q.
Definition rfc_query := s_query false.
Definition cur_query := s_query true.

(* the same with RFC 9485's reading of '.' (excludes CR): differs from [rfc_query] only on the
   known class D25 *)
Definition strict_query (q : query) (d : json) : list node :=
  r_query rx_strict_full rx_strict_sub jeqb false d q.

(* every regular-expression pattern the evaluation can meet is inside the modelled dialect:
   literal patterns of match/search, and, when a pattern is taken from the document, every string
   of the document *)
Fixpoint doc_strings_ok (j : json) : bool :=
  match j with
  | JStr s => rx_supported s && rx_supported (prepare_regex s false) && rx_supported (prepare_regex s true)
  | JArr l => forallb doc_strings_ok l
  | JObj m => forallb (fun kv => doc_strings_ok (snd kv)) m
  | _ => true
  end.
Definition pat_ok (s : str) : bool :=
  rx_supported (prepare_regex s true) && rx_supported (prepare_regex s false).
Definition rx_arg_ok (d : json) (a : fnarg) : bool :=
  match a with
  | ArgLit (LStr s) => pat_ok s
  | ArgLit _ => true
  | _ => doc_strings_ok d
  end.
Fixpoint rxq_segment (d : json) (s : segment) : bool :=
  match s with SegDesc s' => rxq_segment d s' | SegSel x => rxq_selector d x | SegSels l => rxq_selectors d l end
with rxq_selector (d : json) (s : selector) : bool := match s with SelFilter f => rxq_filter d f | _ => true end
with rxq_selectors (d : json) (l : selectors) : bool := match l with SNil => true | SCons s l' => rxq_selector d s && rxq_selectors d l' end
with rxq_segments (d : json) (l : segments) : bool := match l with GNil => true | GCons s l' => rxq_segment d s && rxq_segments d l' end
with rxq_filter (d : json) (f : filter) : bool := match f with FOr l | FAnd l => rxq_filters d l | FAtom a => rxq_atom d a end
with rxq_filters (d : json) (l : filters) : bool := match l with FNil => true | FCons f l' => rxq_filter d f && rxq_filters d l' end
with rxq_atom (d : json) (a : atom) : bool :=
  match a with
  | AFilter f _ => rxq_filter d f
  | ATest t _ => rxq_test d t
  | ACmp _ l r => rxq_comparable d l && rxq_comparable d r
  end
with rxq_comparable (d : json) (c : comparable) : bool := match c with CFn f => rxq_tfun d f | _ => true end
with rxq_test (d : json) (t : test) : bool := match t with TRel l | TAbs l => rxq_segments d l | TFn f => rxq_tfun d f end
with rxq_tfun (d : json) (f : tfun) : bool :=
  match f with
  | FnMatch a b | FnSearch a b => rx_arg_ok d b && rxq_fnarg d a && rxq_fnarg d b
  | FnLength a | FnCount a | FnValue a => rxq_fnarg d a
  | FnCustom _ args => rxq_fnargs d args
  end
with rxq_fnarg (d : json) (a : fnarg) : bool :=
  match a with ArgLit _ => true | ArgTest t => rxq_test d t | ArgFilter f => rxq_filter d f end
with rxq_fnargs (d : json) (l : fnargs) : bool := match l with ANil => true | ACons a l' => rxq_fnarg d a && rxq_fnargs d l' end.
Definition rx_query_ok (q : query) (d : json) : bool := rxq_segments d q.
