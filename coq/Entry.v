(* Entry.v — the closed entry points that the extracted driver calls (and that the property
   theorems are about): the model of the public API at the serde_json::Value instance, and the
   RFC semantics. *)
From Coq Require Import List NArith ZArith Bool.
From JP Require Import Base Ast Eval ValueModel Spec NormPath Known Regex.
Import ListNotations.

Definition mptr := ptr json.

(* model of js_path_process::<Value> *)
Definition m_query (q : query) (d : json) : option (list mptr) :=
  js_path_process value_ops rx_model_search q d.

(* RFC 9535 nodelist of the query *)
Definition s_query (major : bool) (q : query) (d : json) : list node :=
  r_query rx_spec_full rx_spec_sub jeqb major d q.
Definition rfc_query := s_query false.
Definition cur_query := s_query true.
