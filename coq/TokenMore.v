(* TokenMore.v — more facts about every token of every input (PegTree.run_subtree + inversion of the rule):
   shorthand names and function names (their alphabets and first characters), number literals (the integer part is a canonical
   integer or -0, what follows begins with a point or an exponent mark). *)
From Coq Require Import List Arith NArith Bool Lia.
From JP Require Import Base Ast Peg PegFacts Dec2Bin Build PegTerm TermCheck PegAlpha PegTree TokenFacts.
From JP.gen Require Import Grammar.
Import ListNotations.
Local Open Scope nat_scope.

Lemma token_text s r st en kids (Q : str -> Prop) :
  r <> R_EOI ->
  (forall f a s' rest' t, run grammar f (ECall r) a s' st = Ok rest' en t -> exists v, s' = v ++ rest' /\ Q v) ->
  inforest rname (Pair r st en kids) (parse_tokens s) -> Q (slice s st en).
Proof.
  intros Hr Hq Hin. destruct (token_run s r st en kids Hr Hin) as [f [a [s' [rest' [Hrun [v [Es Ev]]]]]]].
  destruct (Hq _ _ _ _ _ Hrun) as [u [Eu Hu]].
  assert (u = v) by (subst s'; apply app_inv_tail in Eu; symmetry; exact Eu). subst u. rewrite Ev. exact Hu.
Qed.

(* ---------- member-name shorthand ---------- *)
Definition is_alpha (c : N) : bool := (N.leb 97 c && N.leb c 122) || (N.leb 65 c && N.leb c 90).
Definition name_first_c (c : N) : bool := is_alpha c || N.eqb c 95 || N.leb 128 c.
Definition name_char_c (c : N) : bool := name_first_c c || is_digit c.
Definition rng_first (lo hi : N) : bool :=
  (N.leb 97 lo && N.leb hi 122) || (N.leb 65 lo && N.leb hi 90) || N.leb 128 lo.
Definition rng_char (lo hi : N) : bool := rng_first lo hi || (N.leb 48 lo && N.leb hi 57).

Ltac nb := repeat match goal with
  | H : _ && _ = true |- _ => apply andb_true_iff in H; destruct H
  | H : _ || _ = true |- _ => apply orb_true_iff in H; destruct H
  | H : N.leb _ _ = true |- _ => apply N.leb_le in H
  | H : N.eqb _ _ = true |- _ => apply N.eqb_eq in H
  end.
Ltac nbgoal := repeat first [apply andb_true_iff; split | apply N.leb_le; lia | apply N.eqb_eq; lia].

Lemma rng_first_ok lo hi c : rng_first lo hi = true -> N.leb lo c && N.leb c hi = true -> name_first_c c = true.
Proof.
  unfold rng_first, name_first_c, is_alpha. intros H1 H2. nb.
  - apply orb_true_iff; left. apply orb_true_iff; left. apply orb_true_iff; left. nbgoal.
  - apply orb_true_iff; left. apply orb_true_iff; left. apply orb_true_iff; right. nbgoal.
  - apply orb_true_iff; right. nbgoal.
Qed.
Lemma rng_char_ok lo hi c : rng_char lo hi = true -> N.leb lo c && N.leb c hi = true -> name_char_c c = true.
Proof.
  unfold rng_char, name_char_c. intros H1 H2. apply orb_true_iff in H1. destruct H1 as [H1|H1].
  - rewrite (rng_first_ok lo hi c H1 H2). reflexivity.
  - apply orb_true_iff; right. unfold is_digit. nb. nbgoal.
Qed.

Definition shorthand_ok (u : str) : Prop :=
  match u with [] => False | c :: r => name_first_c c = true /\ forallb name_char_c r = true end.

Lemma nonempty_first (P1 P2 : N -> bool) (a b : str) :
  a <> [] -> forallb P1 a = true -> forallb P2 b = true -> (forall c, P1 c = true -> P2 c = true) ->
  match a ++ b with [] => False | c :: r => P1 c = true /\ forallb P2 r = true end.
Proof.
  intros Ha H1 H2 Himp. destruct a as [|c a]; [contradiction|]. cbn [app forallb] in *. apply andb_true_iff in H1. destruct H1 as [Hc Hr].
  split; [exact Hc|]. rewrite forallb_app, H2, andb_true_r. apply forallb_forall. intros x Hx.
  apply Himp. rewrite forallb_forall in Hr. apply Hr. exact Hx.
Qed.

(* first ~ rest* under an atomic rule: the general shape of both kinds of names *)
Lemma first_rest_shape (r r1 r2 : rname) (P1 P2 : N -> bool) (g1 g2 : N -> N -> bool) :
  (forall lo hi c, g1 lo hi = true -> N.leb lo c && N.leb c hi = true -> P1 c = true) ->
  (forall lo hi c, g2 lo hi = true -> N.leb lo c && N.leb c hi = true -> P2 c = true) ->
  (forall c, P1 c = true -> P2 c = true) ->
  g_rule grammar r = (KAtomic, ESeq (ECall r1) (ERep (ECall r2))) ->
  chk rname grammar P1 g1 12 (ECall r1) = true -> chk rname grammar P2 g2 12 (ERep (ECall r2)) = true ->
  rule_nullable r1 = false ->
  forall f a s' st rest' en t, run grammar f (ECall r) a s' st = Ok rest' en t ->
  exists v, s' = v ++ rest' /\ match v with [] => False | c :: w => P1 c = true /\ forallb P2 w = true end.
Proof.
  intros G1 G2 Himp Hg C1 C2 Hn f a s' st rest' en t Hr.
  assert (Hat : AAtomic <> ANonAtomic) by discriminate.
  destruct (inv_call rname grammar _ _ _ _ _ _ _ _ Hr) as [f1 [t1 H1]]. rewrite Hg in H1. cbn [fst snd call_atomicity] in H1.
  destruct (inv_seq_atomic rname grammar _ _ _ _ _ _ _ _ _ Hat H1) as [f2 [s1 [p1 [ta [tb [H2 H3]]]]]].
  destruct (run_alpha_atomic rname grammar P1 g1 G1 _ _ _ _ _ _ _ _ _ Hat C1 H2) as [u1 [E1 F1]].
  destruct (run_alpha_atomic rname grammar P2 g2 G2 _ _ _ _ _ _ _ _ _ Hat C2 H3) as [u2 [E2 F2]].
  exists (u1 ++ u2). split; [subst s' s1; rewrite app_assoc; reflexivity|].
  apply nonempty_first; try assumption.
  intros ->. cbn [app] in E1. subst s1.
  pose proof (run_consumes rname grammar (fun _ _ => 0) rule_nullable 5 nullable_ok_G (le_n 5) f2 (ECall r1) AAtomic _ _ _ _ _ Hn H2) as Hlt. lia.
Qed.

Theorem shorthand_token_shape s st en kids :
  inforest rname (Pair R_member_name_shorthand st en kids) (parse_tokens s) -> shorthand_ok (slice s st en).
Proof.
  apply (token_text s R_member_name_shorthand st en kids shorthand_ok); [discriminate|].
  intros f a s' rest' t Hr.
  exact (first_rest_shape R_member_name_shorthand R_name_first R_name_char name_first_c name_char_c rng_first rng_char
           rng_first_ok rng_char_ok (fun c H => eq_trans (f_equal (fun b => b || is_digit c) H) eq_refl)
           eq_refl ltac:(vm_compute; reflexivity) ltac:(vm_compute; reflexivity) eq_refl f a s' st rest' en t Hr).
Qed.

(* ---------- function names ---------- *)
Definition lc_c (c : N) : bool := N.leb 97 c && N.leb c 122.
Definition fn_char_c (c : N) : bool := lc_c c || N.eqb c 95 || is_digit c.
Definition rng_lc (lo hi : N) : bool := N.leb 97 lo && N.leb hi 122.
Definition rng_fn (lo hi : N) : bool := rng_lc lo hi || (N.leb 48 lo && N.leb hi 57).
Lemma rng_lc_ok lo hi c : rng_lc lo hi = true -> N.leb lo c && N.leb c hi = true -> lc_c c = true.
Proof. unfold rng_lc, lc_c. intros H1 H2. nb. nbgoal. Qed.
Lemma rng_fn_ok lo hi c : rng_fn lo hi = true -> N.leb lo c && N.leb c hi = true -> fn_char_c c = true.
Proof.
  unfold rng_fn, fn_char_c. intros H1 H2. apply orb_true_iff in H1. destruct H1 as [H1|H1].
  - rewrite (rng_lc_ok lo hi c H1 H2). reflexivity.
  - apply orb_true_iff; right. unfold is_digit. nb. nbgoal.
Qed.
Definition fname_shape (u : str) : Prop :=
  match u with [] => False | c :: r => lc_c c = true /\ forallb fn_char_c r = true end.

Theorem function_name_token_shape s st en kids :
  inforest rname (Pair R_function_name st en kids) (parse_tokens s) -> fname_shape (slice s st en).
Proof.
  apply (token_text s R_function_name st en kids fname_shape); [discriminate|].
  intros f a s' rest' t Hr.
  exact (first_rest_shape R_function_name R_function_name_first R_function_name_char lc_c fn_char_c rng_lc rng_fn
           rng_lc_ok rng_fn_ok (fun c H => eq_trans (f_equal (fun b => b || N.eqb c 95 || is_digit c) H) eq_refl)
           eq_refl ltac:(vm_compute; reflexivity) ltac:(vm_compute; reflexivity) eq_refl f a s' st rest' en t Hr).
Qed.
Print Assumptions shorthand_token_shape.
Print Assumptions function_name_token_shape.

(* ---------- number literals ---------- *)
Definition tail_c (c : N) : bool := is_digit c || N.eqb c 46 || N.eqb c 101 || N.eqb c 69 || N.eqb c 43 || N.eqb c 45.
Definition rng_tail (lo hi : N) : bool := N.eqb lo 48 && N.eqb hi 57.
Lemma rng_tail_ok lo hi c : rng_tail lo hi = true -> N.leb lo c && N.leb c hi = true -> tail_c c = true.
Proof.
  unfold rng_tail, tail_c. intros H1 H2. apply andb_true_iff in H1. destruct H1 as [Ha Hb].
  apply N.eqb_eq in Ha. apply N.eqb_eq in Hb. subst lo hi. unfold is_digit. rewrite H2. reflexivity.
Qed.
Definition num_tail (tl : str) : Prop :=
  match tl with [] => True | c :: r => (c = 46%N \/ c = 101%N \/ c = 69%N) /\ forallb tail_c r = true end.
Definition number_shape (u : str) : Prop :=
  exists ip tl, u = ip ++ tl /\ (canon_int ip = true \/ ip = [45; 48]%N) /\ num_tail tl.

Lemma num_tail_app a b : num_tail a -> num_tail b -> num_tail (a ++ b).
Proof.
  destruct a as [|c a]; [intros _ H; exact H|]. cbn [num_tail app]. intros [Hc Ha] Hb. split; [exact Hc|].
  rewrite forallb_app, Ha. destruct b as [|d b]; [reflexivity|]. cbn [num_tail] in Hb. destruct Hb as [Hd Hb].
  cbn [forallb]. rewrite Hb. unfold tail_c. destruct Hd as [-> | [-> | ->]]; reflexivity.
Qed.

Lemma frac_run f s' st rest' en t :
  run grammar f (ECall R_frac) AAtomic s' st = Ok rest' en t -> exists v, s' = v ++ rest' /\ num_tail v.
Proof.
  intros Hr. assert (Hat : AAtomic <> ANonAtomic) by discriminate.
  destruct (inv_call rname grammar _ _ _ _ _ _ _ _ Hr) as [f1 [t1 H1]].
  change (snd (g_rule grammar R_frac)) with (ESeq (EStr [46]%N) (ESeq (ECall R_DIGIT) (ERep (ECall R_DIGIT)))) in H1.
  change (call_atomicity (fst (g_rule grammar R_frac)) AAtomic) with AAtomic in H1.
  destruct (inv_seq_atomic rname grammar _ _ _ _ _ _ _ _ _ Hat H1) as [f2 [s1 [p1 [ta [tb [H2 H3]]]]]].
  destruct (inv_str rname grammar _ _ _ _ _ _ _ _ H2) as [Es _].
  destruct (run_alpha_atomic rname grammar tail_c rng_tail rng_tail_ok f2 8 (ESeq (ECall R_DIGIT) (ERep (ECall R_DIGIT))) AAtomic s1 p1 rest' en tb Hat ltac:(vm_compute; reflexivity) H3) as [u [Eu Fu]].
  exists (46%N :: u). split; [subst s' s1; reflexivity|]. cbn [num_tail]. split; [left; reflexivity|exact Fu].
Qed.

Lemma exp_run f s' st rest' en t :
  run grammar f (ECall R_exp) AAtomic s' st = Ok rest' en t -> exists v, s' = v ++ rest' /\ num_tail v.
Proof.
  intros Hr. assert (Hat : AAtomic <> ANonAtomic) by discriminate.
  destruct (inv_call rname grammar _ _ _ _ _ _ _ _ Hr) as [f1 [t1 H1]].
  change (snd (g_rule grammar R_exp))
    with (ESeq (ESeq (EAlt (EStr [101]%N) (EStr [69]%N)) (EOpt (EAlt (EStr [45]%N) (EStr [43]%N)))) (ESeq (ECall R_DIGIT) (ERep (ECall R_DIGIT)))) in H1.
  change (call_atomicity (fst (g_rule grammar R_exp)) AAtomic) with AAtomic in H1.
  destruct (inv_seq_atomic rname grammar _ _ _ _ _ _ _ _ _ Hat H1) as [f2 [s1 [p1 [ta [tb [H2 H3]]]]]].
  destruct (inv_seq_atomic rname grammar _ _ _ _ _ _ _ _ _ Hat H2) as [f3 [s0 [p0 [tc [td [H4 H5]]]]]].
  assert (Hm : exists c, s' = c :: s0 /\ (c = 101%N \/ c = 69%N)).
  { destruct (inv_alt rname grammar _ _ _ _ _ _ _ _ _ H4) as [f4 [H6|H6]];
      destruct (inv_str rname grammar _ _ _ _ _ _ _ _ H6) as [E6 _]; eexists; (split; [exact E6|]); [left|right]; reflexivity. }
  destruct Hm as [c [Ec Hc]].
  destruct (run_alpha_atomic rname grammar tail_c rng_tail rng_tail_ok f3 8 (EOpt (EAlt (EStr [45]%N) (EStr [43]%N))) AAtomic s0 p0 s1 p1 td Hat ltac:(vm_compute; reflexivity) H5) as [u1 [Eu1 Fu1]].
  destruct (run_alpha_atomic rname grammar tail_c rng_tail rng_tail_ok f2 8 (ESeq (ECall R_DIGIT) (ERep (ECall R_DIGIT))) AAtomic s1 p1 rest' en tb Hat ltac:(vm_compute; reflexivity) H3) as [u2 [Eu2 Fu2]].
  exists (c :: u1 ++ u2). split; [subst s' s0 s1; cbn [app]; rewrite <- app_assoc; reflexivity|].
  cbn [num_tail]. split; [destruct Hc as [-> | ->]; [right; left|right; right]; reflexivity|]. rewrite forallb_app, Fu1, Fu2. reflexivity.
Qed.

Lemma opt_tail (r : rname) f s' st rest' en t :
  (forall f s' st rest' en t, run grammar f (ECall r) AAtomic s' st = Ok rest' en t -> exists v, s' = v ++ rest' /\ num_tail v) ->
  run grammar f (EOpt (ECall r)) AAtomic s' st = Ok rest' en t -> exists v, s' = v ++ rest' /\ num_tail v.
Proof.
  intros Hq Hr. destruct (inv_opt rname grammar _ _ _ _ _ _ _ _ Hr) as [[-> _]|[f' H]].
  - exists []. split; [reflexivity|exact I].
  - exact (Hq _ _ _ _ _ _ H).
Qed.

Lemma number_run f a s' st rest' en t :
  run grammar f (ECall R_number) a s' st = Ok rest' en t -> exists v, s' = v ++ rest' /\ number_shape v.
Proof.
  intros Hr. assert (Hat : AAtomic <> ANonAtomic) by discriminate.
  destruct (inv_call rname grammar _ _ _ _ _ _ _ _ Hr) as [f1 [t1 H1]].
  change (snd (g_rule grammar R_number))
    with (ESeq (ESeq (EAlt (ECall R_int) (EStr [45; 48]%N)) (EOpt (ECall R_frac))) (EOpt (ECall R_exp))) in H1.
  change (call_atomicity (fst (g_rule grammar R_number)) a) with AAtomic in H1.
  destruct (inv_seq_atomic rname grammar _ _ _ _ _ _ _ _ _ Hat H1) as [f2 [s2 [p2 [ta [tb [H2 H3]]]]]].
  destruct (inv_seq_atomic rname grammar _ _ _ _ _ _ _ _ _ Hat H2) as [f3 [s1 [p1 [tc [td [H4 H5]]]]]].
  assert (Hip : exists ip, s' = ip ++ s1 /\ (canon_int ip = true \/ ip = [45; 48]%N)).
  { destruct (inv_alt rname grammar _ _ _ _ _ _ _ _ _ H4) as [f4 [H6|H6]].
    - destruct (int_run_canonical _ _ _ _ _ _ _ H6) as [ip [E6 C6]]. exists ip. split; [exact E6|left; exact C6].
    - destruct (inv_str rname grammar _ _ _ _ _ _ _ _ H6) as [E6 _]. exists [45; 48]%N. split; [exact E6|right; reflexivity]. }
  destruct Hip as [ip [Eip Hip]].
  destruct (opt_tail R_frac _ _ _ _ _ _ frac_run H5) as [uf [Euf Huf]].
  destruct (opt_tail R_exp _ _ _ _ _ _ exp_run H3) as [ue [Eue Hue]].
  exists (ip ++ uf ++ ue). split; [subst s' s1 s2; rewrite <- !app_assoc; reflexivity|].
  exists ip, (uf ++ ue). split; [reflexivity|]. split; [exact Hip|apply num_tail_app; assumption].
Qed.

Theorem number_token_shape s st en kids :
  inforest rname (Pair R_number st en kids) (parse_tokens s) -> number_shape (slice s st en).
Proof.
  apply (token_text s R_number st en kids number_shape); [discriminate|].
  intros f a s' rest' t Hr. exact (number_run _ _ _ _ _ _ _ Hr).
Qed.
Print Assumptions number_token_shape.

(* what the shape excludes: a number literal beginning with 0d, -0d (d a digit) or a point *)
Lemma number_shape_no_leading_zero d r : is_digit d = true -> ~ number_shape (48%N :: d :: r).
Proof.
  intros Hd [ip [tl [E [Hip Ht]]]]. destruct Hip as [Hc | ->]; [|discriminate].
  destruct ip as [|c ip]; [discriminate|]. cbn [app] in E. injection E as <- E.
  cbn [canon_int N.eqb Pos.eqb] in Hc. destruct ip as [|x ip]; [|discriminate]. cbn [app] in E. subst tl.
  cbn [num_tail] in Ht. destruct Ht as [[-> | [-> | ->]] _]; discriminate.
Qed.

(* ---------- true / false / null ---------- *)
Theorem bool_token_text s st en kids :
  inforest rname (Pair R_bool st en kids) (parse_tokens s) ->
  slice s st en = [116; 114; 117; 101]%N \/ slice s st en = [102; 97; 108; 115; 101]%N.
Proof.
  apply (token_text s R_bool st en kids (fun v => v = [116; 114; 117; 101]%N \/ v = [102; 97; 108; 115; 101]%N)); [discriminate|].
  intros f a s' rest' t Hr. destruct (inv_call rname grammar _ _ _ _ _ _ _ _ Hr) as [f1 [t1 H1]].
  change (snd (g_rule grammar R_bool)) with (EAlt (EStr [116; 114; 117; 101]%N) (EStr [102; 97; 108; 115; 101]%N) : expr rname) in H1.
  destruct (inv_alt rname grammar _ _ _ _ _ _ _ _ _ H1) as [f2 [H2|H2]];
    destruct (inv_str rname grammar _ _ _ _ _ _ _ _ H2) as [E _]; eexists; (split; [exact E|]); [left|right]; reflexivity.
Qed.
Theorem null_token_text s st en kids :
  inforest rname (Pair R_null st en kids) (parse_tokens s) -> slice s st en = [110; 117; 108; 108]%N.
Proof.
  apply (token_text s R_null st en kids (fun v => v = [110; 117; 108; 108]%N)); [discriminate|].
  intros f a s' rest' t Hr. destruct (inv_call rname grammar _ _ _ _ _ _ _ _ Hr) as [f1 [t1 H1]].
  change (snd (g_rule grammar R_null)) with (EStr [110; 117; 108; 108]%N : expr rname) in H1.
  destruct (inv_str rname grammar _ _ _ _ _ _ _ _ H1) as [E _]. eexists; split; [exact E|reflexivity].
Qed.
Print Assumptions bool_token_text.
