(* NumParse.v — C06 for number literals: every number of the RFC 9535 grammar that has a fraction or an exponent
   (any integer part incl. -0, any digits, e or E, optional sign) is accepted as a comparison literal and read as
   the binary64 nearest to its decimal value (Dec2Bin.dec_to_f64). *)
From Coq Require Import List Arith NArith ZArith Bool Lia.
From JP Require Import Base Ast Peg PegFacts NormPath NormPathFacts Dec2Bin Known Build BuildSteps NpParse NpBuild
  BaseFacts FragParse FragBuild RejectFacts RejectMore GenParse GenBuild FilterParse FilterBuild.
From JP.gen Require Import Grammar.
Import ListNotations.
Local Open Scope nat_scope.

(* ---------- the shape of a number ---------- *)
Inductive ipart := IZ (z : Z) | INegZero.
Definition ipart_text (i : ipart) : str := match i with IZ z => int_text z | INegZero => [45; 48]%N end.
Definition ipart_neg (i : ipart) : bool := match i with IZ z => Z.ltb z 0 | INegZero => true end.
Definition ipart_digits (i : ipart) : str := match i with IZ z => dec_of_N (Z.to_N (Z.abs z)) | INegZero => [48%N] end.

Definition frac := option (N * str).                 (* first digit, more digits *)
Definition frac_text (f : frac) : str := match f with Some (d, ds) => 46%N :: d :: ds | None => [] end.
Definition frac_digits (f : frac) : str := match f with Some (d, ds) => d :: ds | None => [] end.
Definition frac_ok (f : frac) : Prop :=
  match f with Some (d, ds) => is_digit d = true /\ forallb is_digit ds = true | None => True end.

Inductive esign := ENone | EPlus | EMinus.
Definition expo := option (bool * esign * (N * str)).  (* upper-case E?, sign, digits *)
Definition esign_text (s : esign) : str := match s with ENone => [] | EPlus => [43%N] | EMinus => [45%N] end.
Definition expo_text (e : expo) : str :=
  match e with Some (up, s, (d, ds)) => (if up then 69%N else 101%N) :: esign_text s ++ d :: ds | None => [] end.
Definition expo_ok (e : expo) : Prop :=
  match e with Some (_, _, (d, ds)) => is_digit d = true /\ forallb is_digit ds = true | None => True end.
Definition expo_val (e : expo) : option Z :=
  match e with
  | Some (_, s, (d, ds)) =>
      match digits_val 0 (d :: ds) with
      | Some v => Some (match s with EMinus => (- v)%Z | _ => v end)
      | None => None
      end
  | None => Some 0%Z
  end.

Definition num_text (i : ipart) (f : frac) (e : expo) : str := ipart_text i ++ frac_text f ++ expo_text e.

(* ---------- f64::from_str on it ---------- *)
Lemma take_digits_all ds : forallb is_digit ds = true -> take_digits ds = (ds, []).
Proof.
  induction ds as [|d ds IH]; intros H; [reflexivity|]. cbn [forallb] in H. apply andb_true_iff in H. destruct H as [H1 H2].
  cbn [take_digits]. rewrite H1, (IH H2). reflexivity.
Qed.
Lemma take_digits_split ds rest :
  forallb is_digit ds = true -> non_digit_head rest -> take_digits (ds ++ rest) = (ds, rest).
Proof.
  intros Hd Hr. destruct rest as [|c r]; [rewrite app_nil_r; apply take_digits_all; exact Hd|].
  apply take_digits_stop; assumption.
Qed.

Lemma ipart_digits_ok i : forallb is_digit (ipart_digits i) = true /\ ipart_digits i <> [].
Proof.
  destruct i as [z|]; cbn [ipart_digits]; [|split; [reflexivity|discriminate]].
  destruct (dec_of_N_spec (Z.to_N (Z.abs z))) as [Hd [_ Hz]]. split; [exact Hd|].
  destruct (dec_of_N (Z.to_N (Z.abs z))); [destruct Hz|discriminate].
Qed.

(* the text of the integer part is an optional '-' followed by its digits *)
Lemma ipart_text_split i : ipart_text i = (if ipart_neg i then [45%N] else []) ++ ipart_digits i.
Proof.
  destruct i as [z|]; cbn [ipart_text ipart_neg ipart_digits]; [|reflexivity].
  unfold int_text. destruct (Z.ltb_spec z 0).
  - cbn [app]. do 2 f_equal. lia.
  - cbn [app]. do 2 f_equal. lia.
Qed.

Lemma sign_split_digit (h : N) (t : str) :
  is_digit h = true ->
  match h :: t with 45%N :: r => (true, r) | 43%N :: r => (false, r) | _ => (false, h :: t) end = (false, h :: t).
Proof.
  intros H. apply is_digit_bounds in H. destruct h as [|p]; [reflexivity|].
  do 6 (destruct p as [p|p|]; try reflexivity); lia.
Qed.

Definition exp_part_of (r2 : str) : option Z :=
  match r2 with
  | [] => Some 0%Z
  | c :: r =>
      if (N.eqb c 101 || N.eqb c 69)%bool then
        let '(eneg, eb) :=
          match r with
          | 45%N :: r' => (true, r')
          | 43%N :: r' => (false, r')
          | _ => (false, r)
          end in
        match eb with
        | [] => None
        | _ => match digits_val 0 eb with
               | Some v => Some (if eneg then (- v)%Z else v)
               | None => None
               end
        end
      else None
  end.

Lemma exp_part_expo e : expo_ok e -> exp_part_of (expo_text e) = expo_val e.
Proof.
  destruct e as [[[up s] [d ds]]|]; [|reflexivity]. cbn [expo_ok expo_text expo_val]. intros [Hd Hds].
  assert (Hup : (N.eqb (if up then 69%N else 101%N) 101 || N.eqb (if up then 69%N else 101%N) 69)%bool = true) by (destruct up; reflexivity).
  unfold exp_part_of. rewrite Hup.
  destruct s; cbn [esign_text app].
  - rewrite (sign_split_digit d ds Hd). destruct (digits_val 0 (d :: ds)); reflexivity.
  - destruct (digits_val 0 (d :: ds)); reflexivity.
  - destruct (digits_val 0 (d :: ds)); reflexivity.
Qed.

Lemma expo_head e : non_digit_head (expo_text e).
Proof. destruct e as [[[up s] [d ds]]|]; [destruct up; reflexivity|exact I]. Qed.
Lemma expo_not_dot e : match expo_text e with 46%N :: _ => False | _ => True end.
Proof. destruct e as [[[up s] [d ds]]|]; [destruct up; exact I|exact I]. Qed.

Theorem parse_f64_num i f e :
  frac_ok f -> expo_ok e ->
  parse_f64 (num_text i f e)
  = match digits_val 0 (ipart_digits i ++ frac_digits f), expo_val e with
    | Some m, Some ex => Some (ipart_neg i, dec_to_f64 m (ex - Z.of_nat (length (frac_digits f))))
    | _, _ => None
    end.
Proof.
  intros Hf He. destruct (ipart_digits_ok i) as [Hid Hine].
  assert (Hbody : parse_f64 (num_text i f e)
                  = let body := ipart_digits i ++ frac_text f ++ expo_text e in
                    let '(ip, r1) := take_digits body in
                    let '(fp, r2) := match r1 with 46%N :: r => take_digits r | _ => ([], r1) end in
                    match ip, fp with
                    | [], [] => None
                    | _, _ =>
                        match digits_val 0 (ip ++ fp), exp_part_of r2 with
                        | Some m, Some ex => Some (ipart_neg i, dec_to_f64 m (ex - Z.of_nat (length fp)))
                        | _, _ => None
                        end
                    end).
  { unfold num_text. rewrite ipart_text_split. unfold parse_f64. destruct (ipart_neg i); cbn [app].
    - reflexivity.
    - destruct (ipart_digits i) as [|h t] eqn:E; [contradiction|]. cbn [app].
      cbn [forallb] in Hid. apply andb_true_iff in Hid. destruct Hid as [Hh _].
      apply is_digit_bounds in Hh. destruct h as [|p]; [lia|].
      do 6 (destruct p as [p|p|]; try lia); reflexivity. }
  rewrite Hbody. cbv zeta.
  assert (Hnd : non_digit_head (frac_text f ++ expo_text e)).
  { destruct f as [[d ds]|]; [reflexivity|apply expo_head]. }
  rewrite (take_digits_split (ipart_digits i) (frac_text f ++ expo_text e) Hid Hnd).
  destruct f as [[d ds]|]; cbn [frac_text frac_digits app frac_ok] in *.
  - destruct Hf as [Hd Hds].
    assert (Hdd : forallb is_digit (d :: ds) = true) by (cbn [forallb]; rewrite Hd, Hds; reflexivity).
    change (d :: ds ++ expo_text e) with ((d :: ds) ++ expo_text e).
    rewrite (take_digits_split (d :: ds) (expo_text e) Hdd (expo_head e)).
    rewrite (exp_part_expo e He). destruct (ipart_digits i) as [|h t]; [contradiction|]. reflexivity.
  - pose proof (expo_not_dot e) as Hnot.
    assert (E : match expo_text e with 46%N :: r => take_digits r | _ => ([], expo_text e) end = ([], expo_text e)).
    { destruct (expo_text e) as [|c r]; [reflexivity|]. destruct c as [|p]; [reflexivity|].
      do 6 (destruct p as [p|p|]; try reflexivity). destruct Hnot. }
    rewrite E. rewrite (exp_part_expo e He). rewrite app_nil_r.
    destruct (ipart_digits i) as [|h t]; [contradiction|]. cbn [length]. reflexivity.
Qed.

(* ---------- the grammar on it ---------- *)
Ltac num_hook :=
  lazymatch goal with
  | |- Runs _ _ (ECall R_WHITESPACE) AAtomic _ _ _ => apply ws_fail; solve_not_ws
  | |- Runs _ _ (ECall R_S) _ _ _ _ => apply S_none; solve_not_ws
  | |- Runs _ _ (ERep (ECall R_DIGIT)) AAtomic (_ ++ _) _ _ =>
      apply digits_body'; [assumption|solve [assumption | reflexivity | exact I]]
  | |- Runs _ _ (ECall R_int) _ (int_text _ ++ _) _ _ => apply int_runs; solve [assumption | reflexivity | exact I]
  end.
Ltac peg_hook ::= num_hook.
Ltac solve_not_ws ::= solve [assumption | cbn [not_ws]; repeat split; lia | exact I].

Lemma number_literal_runs i f e rest pos :
  frac_ok f -> expo_ok e ->
  RunsG (120 + length (num_text i f e)) (ECall R_literal) ANonAtomic (num_text i f e ++ 93%N :: rest) pos
        (Ok (93%N :: rest) (pos + length (num_text i f e))
            [Pair R_literal pos (pos + length (num_text i f e)) [Pair R_number pos (pos + length (num_text i f e)) []]]).
Proof.
  intros Hf He. unfold num_text.
  destruct f as [[d ds]|]; cbn [frac_ok frac_text] in *;
    [destruct Hf as [Hd Hds]; apply is_digit_bounds in Hd|];
    (destruct e as [[[up s] [d' ds']]|]; cbn [expo_ok expo_text] in *;
      [destruct He as [Hd' Hds']; apply is_digit_bounds in Hd'; destruct up, s; cbn [esign_text app]|]);
    destruct i as [z|]; cbn [ipart_text app]; repeat (rewrite <- app_assoc; cbn [app]); pegd_upto.
Qed.

(* ---------- parser.rs on it ---------- *)
Definition num_value (i : ipart) (f : frac) (e : expo) : option dy :=
  match parse_f64 (num_text i f e) with
  | Some (neg, r) => match f64_signed neg r with FFinite d => Some d | FInf => None end
  | None => None
  end.

Lemma round_ratio_exp num den q ex : round_ratio num den = FFinite (q, ex) -> (ex <= 971)%Z.
Proof.
  unfold round_ratio. cbv zeta.
  match goal with |- context [Z.max ?a ?b] => set (e0 := Z.max a b) end.
  destruct (if Z.leb 0 e0 then _ else _) as [n' d'].
  match goal with |- context [if ?c then FInf else _] => destruct c end; [discriminate|].
  destruct (Z.ltb_spec 971 e0) as [Hlt|Hge]; [discriminate|]. intros Heq. inversion Heq. subst. lia.
Qed.

Lemma dec_to_f64_exp m x q ex : dec_to_f64 m x = FFinite (q, ex) -> (ex <= 971)%Z.
Proof.
  unfold dec_to_f64. destruct (Z.eqb m 0); [intros H; inversion H; lia|].
  destruct (Z.ltb 400 x); [discriminate|]. destruct (Z.ltb x _); [intros H; inversion H; lia|].
  destruct (Z.leb 0 x); apply round_ratio_exp.
Qed.

Lemma num_value_exp i f e q ex : frac_ok f -> expo_ok e -> num_value i f e = Some (q, ex) -> (ex <= 971)%Z.
Proof.
  intros Hf He. unfold num_value. rewrite (parse_f64_num i f e Hf He).
  destruct (digits_val 0 _) as [m|]; [|discriminate]. destruct (expo_val e) as [x|]; [|discriminate].
  destruct (dec_to_f64 m _) as [[q0 e0]|] eqn:E; cbn [f64_signed]; [|discriminate].
  intros H. inversion H. subst. apply (dec_to_f64_exp _ _ _ _ E).
Qed.

Lemma num_chars i f e c : frac_ok f -> expo_ok e -> In c (num_text i f e) ->
  is_digit c = true \/ c = 45%N \/ c = 43%N \/ c = 46%N \/ c = 101%N \/ c = 69%N.
Proof.
  intros Hf He Hin. unfold num_text in Hin. apply in_app_or in Hin. destruct Hin as [Hin|Hin].
  - destruct i as [z|]; cbn [ipart_text] in Hin.
    + destruct (int_text_chars z c Hin) as [->|H]; auto.
    + destruct Hin as [<-|[<-|[]]]; auto.
  - apply in_app_or in Hin. destruct Hin as [Hin|Hin].
    + destruct f as [[d ds]|]; cbn [frac_text frac_ok] in *; [|destruct Hin]. destruct Hf as [Hd Hds].
      destruct Hin as [<-|[<-|Hin]]; auto. left. apply (forallb_In _ _ _ Hds Hin).
    + destruct e as [[[up s] [d ds]]|]; cbn [expo_text expo_ok] in *; [|destruct Hin]. destruct He as [Hd Hds].
      destruct Hin as [<-|Hin]; [destruct up; auto 10|]. apply in_app_or in Hin. destruct Hin as [Hin|Hin].
      * destruct s; cbn [esign_text] in Hin; [destruct Hin|destruct Hin as [<-|[]]; auto|destruct Hin as [<-|[]]; auto].
      * destruct Hin as [<-|Hin]; auto. left. apply (forallb_In _ _ _ Hds Hin).
Qed.

Lemma num_text_no_uws i f e c : frac_ok f -> expo_ok e -> In c (num_text i f e) -> is_unicode_ws c = false.
Proof.
  intros Hf He Hin. destruct (num_chars i f e c Hf He Hin) as [H|[->|[->|[->|[->| ->]]]]]; try reflexivity.
  apply digit_not_uws. exact H.
Qed.

Lemma num_has_mark i f e : f <> None \/ e <> None ->
  (contains 46 (num_text i f e) || contains 101 (num_text i f e) || contains 69 (num_text i f e))%bool = true.
Proof.
  assert (Hc : forall c l1 l2, contains c (l1 ++ c :: l2) = true).
  { intros c l1 l2. induction l1 as [|x l1 IH]; cbn [app contains]; [rewrite N.eqb_refl; reflexivity|rewrite IH; apply orb_true_r]. }
  intros [Hf|He]; unfold num_text.
  - destruct f as [[d ds]|]; [|contradiction]. cbn [frac_text app]. rewrite (Hc 46%N (ipart_text i) (d :: ds ++ expo_text e)). reflexivity.
  - destruct e as [[[up s] [d ds]]|]; [|contradiction]. cbn [expo_text]. rewrite app_assoc.
    destruct up; rewrite Hc; [apply orb_true_r|rewrite orb_true_r; reflexivity].
Qed.

Ltac nl_hook :=
  lazymatch goal with
  | |- Runs _ _ (ECall R_WHITESPACE) AAtomic _ _ _ => apply ws_fail; solve_not_ws
  | |- Runs _ _ (ECall R_S) _ _ _ _ => apply S_none; solve_not_ws
  | Hf : frac_ok ?f, He : expo_ok ?e |- Runs _ _ (ECall R_literal) _ (num_text _ ?f ?e ++ 93%N :: _) _ _ =>
      apply number_literal_runs; assumption
  end.
Ltac peg_hook ::= nl_hook.

(* every number with a fraction or an exponent as a comparison literal: $[?@==<number>] *)
Theorem number_literal_accepted i f e d :
  frac_ok f -> expo_ok e -> f <> None \/ e <> None -> num_value i f e = Some d ->
  parse_query ([36; 91; 63; 64; 61; 61]%N ++ num_text i f e ++ [93%N])
  = POk (GCons (SegSel (SelFilter (FAtom (ACmp OpEq (CSq (SqCur [])) (CLit (LFloat d)))))) GNil).
Proof.
  intros Hf He Hmark Hval. set (st := num_text i f e) in *. cbn [app].
  set (inp := 36%N :: 91%N :: 63%N :: 64%N :: 61%N :: 61%N :: st ++ [93%N]).
  assert (Hhead : exists h t, st = h :: t /\ (h = 45%N \/ is_digit h = true)).
  { unfold st, num_text. destruct i as [z|]; cbn [ipart_text].
    - destruct (int_text_head z) as [h [t [E Hh]]]. rewrite E. eexists _, _. split; [reflexivity|exact Hh].
    - eexists _, _. split; [reflexivity|left; reflexivity]. }
  assert (Hnw : not_ws (st ++ [93%N])).
  { destruct Hhead as [h [t [E Hh]]]. rewrite E. cbn [app not_ws]. destruct Hh as [->|Hh]; [repeat split; discriminate|].
    apply is_digit_bounds in Hh. repeat split; lia. }
  assert (Htrim : trim_blank inp = inp).
  { unfold trim_blank, inp. change (36%N :: 91%N :: 63%N :: 64%N :: 61%N :: 61%N :: st ++ [93%N]) with (36%N :: ([91; 63; 64; 61; 61]%N ++ st) ++ [93%N]).
    apply trim_ends; reflexivity. }
  unfold parse_query, parse_model. rewrite Htrim, str_eqb_refl. cbn [negb]. unfold parse_rule.
  set (n := length inp).
  assert (Hrun : RunsG (400 + length st) (ECall R_main) ANonAtomic inp 0
    (Ok [] n
      [Pair R_main 0 n
        [Pair R_jp_query 0 n [Pair R_segments 1 n [Pair R_segment 1 n [Pair R_child_segment 1 n
          [Pair R_bracketed_selection 1 n [Pair R_selector 2 (n - 1) [Pair R_filter_selector 2 (n - 1)
            [Pair R_logical_expr 3 (n - 1) [Pair R_logical_expr_and 3 (n - 1) [Pair R_atom_expr 3 (n - 1)
              [Pair R_comp_expr 3 (n - 1)
                [Pair R_comparable 3 4 [Pair R_singular_query 3 4 [Pair R_rel_singular_query 3 4 [Pair R_singular_query_segments 4 4 []]]];
                 Pair R_comp_op 4 6 [];
                 Pair R_comparable 6 (n - 1) [Pair R_literal 6 (n - 1) [Pair R_number 6 (n - 1) []]]]]]]]]]]]]];
         Pair R_EOI n n []]])).
  { unfold n, inp, st. eapply runs_conv; [pegd| |].
    - norm_len. bound.
    - red_res. decide_eqb. cbv beta iota. norm_len. repeat (first [reflexivity | lia | progress f_equal]). }
  rewrite (Hrun (parse_fuel inp)) by (unfold parse_fuel, inp; cbn [length]; rewrite ?app_length; cbn [length]; lia).
  cbn [next_down p_kids]. unfold b_jp_query. cbn [next_down p_kids bind].
  assert (E5 : exists fu, parse_fuel inp = S (S (S (S (S (S (S (S (S (S fu)))))))))) by (exists (990 + 400 * length inp); unfold parse_fuel; lia).
  destruct E5 as [fu E5]. rewrite E5. rewrite b_segments_step. cbn [p_kids mapM next_down bind].
  rewrite b_segment_step. rules. cbn [next_down p_kids bind].
  assert (Hn : n = 7 + length st) by (unfold n, inp; cbn [length]; rewrite app_length; cbn [length]; lia).
  assert (Ei : inp = [36%N] ++ (91%N :: 63%N :: 64%N :: 61%N :: 61%N :: st ++ [93%N]) ++ []) by (unfold inp; rewrite app_nil_r; reflexivity).
  rewrite (p_str_at inp _ _ _ _ [36%N] (91%N :: 63%N :: 64%N :: 61%N :: 61%N :: st ++ [93%N]) [] Ei eq_refl);
    [|rewrite Hn; cbn [length]; rewrite !app_length; cbn [length]; lia].
  cbv zeta. cbn [negb str_eqb trim_start_blank drop_while next_down p_kids bind].
  rewrite b_child_segment_step. rules. cbn [p_kids mapM].
  rewrite b_selector_step. cbn [next_down p_kids bind]. rules. cbn [next_down p_kids bind].
  rewrite b_logical_expr_step. cbn [p_kids mapM]. rewrite b_logical_expr_and_step. cbn [p_kids mapM].
  rewrite b_filter_atom_step. cbn [next_down p_kids bind]. rules. cbn [p_kids].
  rewrite b_comparable_step. cbn [next_down p_kids bind]. rules.
  unfold b_squery. cbn [next_down p_kids bind]. rules. unfold b_sqsegs. cbn [p_kids mapM bind].
  rewrite b_comparable_step. cbn [next_down p_kids bind]. rules.
  unfold literal_of, b_literal. cbn [next_down p_kids]. rules.
  assert (Ei2 : inp = [36; 91; 63; 64; 61; 61]%N ++ st ++ [93%N]) by reflexivity.
  rewrite (p_str_at inp _ _ _ _ [36; 91; 63; 64; 61; 61]%N st [93%N] Ei2 eq_refl); [|rewrite Hn; cbn [length]; lia].
  unfold trim_unicode. rewrite trim_no_ends by (intros c Hc; apply (num_text_no_uws i f e c Hf He Hc)).
  unfold st. rewrite (num_has_mark i f e Hmark).
  destruct d as [q ex]. pose proof (num_value_exp i f e q ex Hf He Hval) as Hex.
  unfold num_value in Hval. destruct (parse_f64 (num_text i f e)) as [[neg r]|]; [|discriminate].
  destruct (f64_signed neg r) as [d0|]; [|discriminate]. inversion Hval. subst d0. cbn [bind].
  assert (Ei3 : inp = [36; 91; 63; 64]%N ++ [61; 61]%N ++ (num_text i f e ++ [93%N])) by reflexivity.
  rewrite (p_str_at inp _ _ _ _ [36; 91; 63; 64]%N [61; 61]%N (num_text i f e ++ [93%N]) Ei3 eq_refl eq_refl).
  change (cmp_op_of [61; 61]%N) with (Some OpEq). cbn [bind].
  assert (Hfin : Z.ltb 1024 ex = false) by (apply Z.ltb_ge; lia).
  cbn. rewrite Hfin. reflexivity.
Qed.

(* what the value is: the binary64 nearest to (digits of the integer part and of the fraction) x 10^(exponent - number
   of fraction digits), with the sign of the integer part *)
Lemma num_value_spec i f e :
  frac_ok f -> expo_ok e ->
  num_value i f e
  = match digits_val 0 (ipart_digits i ++ frac_digits f), expo_val e with
    | Some m, Some ex =>
        match f64_signed (ipart_neg i) (dec_to_f64 m (ex - Z.of_nat (length (frac_digits f)))) with
        | FFinite d => Some d
        | FInf => None
        end
    | _, _ => None
    end.
Proof.
  intros Hf He. unfold num_value. rewrite (parse_f64_num i f e Hf He).
  destruct (digits_val 0 _); [|reflexivity]. destruct (expo_val e); reflexivity.
Qed.
