(* NormPath.v — RFC 9535 section 2.7: the Normalized Path of a location. *)
From Coq Require Import List NArith ZArith Bool.
From JP Require Import Base.
Import ListNotations.

Definition hexdig (n : N) : N := if N.ltb n 10 then (48 + n)%N else (87 + n)%N.  (* lower case *)

(* normal-escapable / normal-hexchar *)
Definition np_escape_char (c : N) : str :=
  if N.eqb c 8 then [92; 98]%N            (* \b *)
  else if N.eqb c 12 then [92; 102]%N     (* \f *)
  else if N.eqb c 10 then [92; 110]%N     (* \n *)
  else if N.eqb c 13 then [92; 114]%N     (* \r *)
  else if N.eqb c 9 then [92; 116]%N      (* \t *)
  else if N.eqb c 39 then [92; 39]%N      (* \' *)
  else if N.eqb c 92 then [92; 92]%N      (* \\ *)
  else if N.ltb c 32 then [92; 117; 48; 48; hexdig (N.div c 16); hexdig (N.modulo c 16)]%N
  else [c].

Definition np_step (s : step) : str :=
  match s with
  | SName k => [91; 39]%N ++ flat_map np_escape_char k ++ [39; 93]%N
  | SIdx i => [91]%N ++ dec_of_nat i ++ [93]%N
  end.

Definition np (l : loc) : str := [36]%N ++ flat_map np_step l.
