(* RejectRange.v — C07: an index outside the I-JSON range is rejected, for every such integer (the grammar accepts
   the digits; parser.rs rejects through parse::<i64> and validate_range). *)
From Coq Require Import List Arith NArith ZArith Bool Lia.
From JP Require Import Base Ast Peg PegFacts NormPath NormPathFacts Dec2Bin Known Build BuildSteps NpParse NpBuild
  BaseFacts FragParse FragBuild RejectFacts.
From JP.gen Require Import Grammar.
Import ListNotations.
Local Open Scope nat_scope.

Lemma parse_i64_int_text_full z :
  parse_i64 (int_text z) = if (Z.leb (- 2 ^ 63) z && Z.leb z (2 ^ 63 - 1))%bool then Some z else None.
Proof.
  unfold int_text. destruct (Z.ltb_spec z 0) as [Hneg|Hpos].
  - pose proof (dec_of_N_value (Z.to_N (- z))) as Hv.
    destruct (dec_of_N_spec (Z.to_N (- z))) as [_ [_ Hz]].
    unfold parse_i64. cbv beta iota. destruct (dec_of_N (Z.to_N (- z))) as [|d r] eqn:E; [destruct Hz|].
    rewrite Hv. replace (- Z.of_N (Z.to_N (- z)))%Z with z by lia. reflexivity.
  - pose proof (dec_of_N_value (Z.to_N z)) as Hv.
    destruct (dec_of_N_spec (Z.to_N z)) as [Hd [_ Hz]].
    destruct (dec_of_N (Z.to_N z)) as [|d r] eqn:E; [destruct Hz|].
    cbn [forallb] in Hd. apply andb_true_iff in Hd. destruct Hd as [Hd _]. apply is_digit_bounds in Hd.
    assert (Hgo : forall body, digits_val 0 body = Some (Z.of_N (Z.to_N z)) -> body <> [] ->
              match body with
              | [] => None
              | _ => match digits_val 0 body with
                     | Some v => if (Z.leb (- 2 ^ 63) v && Z.leb v (2 ^ 63 - 1))%bool then Some v else None
                     | None => None
                     end
              end = if (Z.leb (- 2 ^ 63) z && Z.leb z (2 ^ 63 - 1))%bool then Some z else None).
    { intros body Hb Hne. destruct body; [contradiction|]. rewrite Hb. replace (Z.of_N (Z.to_N z)) with z by lia. reflexivity. }
    unfold parse_i64.
    destruct d as [|p]; [lia|]. do 6 (destruct p as [p|p|]; try lia); cbv beta iota; rewrite Hv; replace (Z.of_N (Z.to_N z)) with z by lia; reflexivity.
Qed.

Lemma index_value_rejected z : ~ z_ok z -> bind (parse_i64 (int_text z)) validate_range = None.
Proof.
  intros Hz. rewrite parse_i64_int_text_full.
  destruct (Z.leb (- 2 ^ 63) z && Z.leb z (2 ^ 63 - 1))%bool; [|reflexivity]. cbn [bind].
  unfold validate_range. unfold z_ok in Hz.
  destruct (Z.ltb_spec MAX_VAL z); [reflexivity|]. destruct (Z.ltb_spec z MIN_VAL); [reflexivity|]. exfalso. apply Hz. lia.
Qed.

Theorem index_out_of_range_rejected z :
  ~ z_ok z -> parse_query (36%N :: 91%N :: int_text z ++ [93%N]) = PErr.
Proof.
  intros Hz. set (q := [FBracket (FIndex z) []]).
  assert (Et : segs_text q = 91%N :: int_text z ++ [93%N]).
  { unfold q, segs_text. cbn [flat_map seg_text]. rewrite app_nil_r. unfold bracket_text. cbn [sel_text flat_map app].
    reflexivity. }
  rewrite <- Et. set (inp := 36%N :: segs_text q).
  assert (Hok : Forall seg_ok q) by (repeat constructor).
  pose proof (frag_not_trimmed q Hok) as Ht. fold inp in Ht.
  unfold parse_query, parse_model. rewrite Ht, str_eqb_refl. cbn [negb]. unfold parse_rule.
  assert (Hfuel : 200 + length (segs_text q) <= parse_fuel inp).
  { unfold parse_fuel, inp. cbn [length]. lia. }
  pose proof (main_segs q Hok (parse_fuel inp) Hfuel) as Hrun. fold inp in Hrun. rewrite Hrun.
  unfold query_pairs. cbn [next_down p_kids]. unfold b_jp_query. cbn [next_down p_kids bind].
  assert (E5 : exists f, parse_fuel inp = S (S (S (S (S f))))).
  { exists (995 + 400 * length inp). unfold parse_fuel. lia. }
  destruct E5 as [f E5]. rewrite E5. rewrite b_segments_step. cbn [p_kids].
  assert (Ei : inp = [36%N] ++ bracket_text (FIndex z) [] ++ []).
  { unfold inp. rewrite Et. unfold bracket_text. cbn [sel_text commas_text flat_map app]. rewrite !app_nil_r. reflexivity. }
  unfold q. cbn [segs_pairs mapM]. unfold seg_pair. cbn [next_down p_kids bind seg_text].
  rewrite b_segment_step. rules.
  change 1 with (length [36%N]).
  rewrite (p_str_at inp _ _ _ _ [36%N] (bracket_text (FIndex z) []) [] Ei eq_refl eq_refl).
  unfold bracket_text at 1. cbv zeta. cbn [negb str_eqb trim_start_blank drop_while next_down p_kids bind].
  rewrite b_child_segment_step. unfold bracket_pair. rules. cbn [p_kids mapM].
  rewrite b_selector_step. unfold sel_pair. cbn [next_down p_kids bind sel_text]. rules.
  rewrite (p_str_at inp _ _ _ _ [36%N; 91%N] (int_text z) [93%N]); [| |reflexivity|reflexivity].
  - unfold trim_unicode. rewrite trim_no_ends by apply int_text_no_uws.
    pose proof (index_value_rejected z Hz) as Hrej. destruct (parse_i64 (int_text z)) as [v|]; cbn [bind] in *.
    + rewrite Hrej. reflexivity.
    + reflexivity.
  - rewrite Ei. unfold bracket_text. cbn [sel_text commas_text flat_map app]. rewrite !app_nil_r. reflexivity.
Qed.

(* ---------- blank space after the query ---------- *)
Lemma drop_while_suffix f (s : str) : exists p, s = p ++ drop_while f s.
Proof.
  induction s as [|c s [p IH]]; [exists []; reflexivity|]. cbn [drop_while]. destruct (f c).
  - exists (c :: p). cbn [app]. rewrite <- IH. reflexivity.
  - exists []. reflexivity.
Qed.

Lemma trim_trailing_shorter f (s : str) b : f b = true -> length (trim_matches f (s ++ [b])) < length (s ++ [b]).
Proof.
  intros Hb. unfold trim_matches. rewrite rev_length.
  destruct (drop_while_suffix f (s ++ [b])) as [p Ep].
  destruct (drop_while f (s ++ [b])) as [|y0 ys] eqn:Ed.
  - cbn. rewrite app_length. cbn [length]. lia.
  - assert (Hlast : exists m, y0 :: ys = m ++ [b]).
    { destruct (exists_last (l := y0 :: ys)) as [m [x Ex]]; [discriminate|]. exists m. rewrite Ex in Ep.
      rewrite app_assoc in Ep. apply app_inj_tail in Ep. destruct Ep as [_ ->]. exact Ex. }
    destruct Hlast as [m Em]. rewrite Em, rev_app_distr. cbn [rev app drop_while]. rewrite Hb.
    pose proof (drop_while_length f (rev m)) as Hl. rewrite rev_length in Hl.
    assert (Hlen : length (y0 :: ys) <= length (s ++ [b])).
    { rewrite Ep, app_length. lia. }
    rewrite Em, app_length in Hlen. cbn [length] in Hlen. lia.
Qed.

(* the crate rejects a query followed (or preceded: no_root_rejected) by blank space, as RFC 9535 2.1 asks *)
Theorem trailing_blank_rejected s b : is_blank b = true -> parse_query (s ++ [b]) = PErr.
Proof.
  intros Hb. unfold parse_query, parse_model.
  destruct (str_eqb (s ++ [b]) (trim_blank (s ++ [b]))) eqn:Et; [|reflexivity].
  apply str_eqb_eq in Et. pose proof (trim_trailing_shorter is_blank s b Hb) as Hl.
  unfold trim_blank in Et. rewrite <- Et in Hl. lia.
Qed.
