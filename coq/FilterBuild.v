(* FilterBuild.v — parser.rs (Build.v) on the pair trees of FilterParse.v: literals, singular queries,
   comparisons, tests, parentheses, && and ||, filter selectors, to any nesting depth; and the round trip
   parse_query (canonical text) = POk (AST) for the whole tower. *)
From Coq Require Import List Arith NArith ZArith Bool Lia.
From JP Require Import Base Ast Peg PegFacts NormPath NormPathFacts Dec2Bin Known Build BuildSteps
  NpParse NpBuild FragParse FragBuild GenParse GenBuild FilterParse BaseFacts.
From JP.gen Require Import Grammar.
Import ListNotations.
Local Open Scope nat_scope.

Ltac leq := repeat (first [rewrite app_length | progress cbn [length]]); lia.
Ltac list_eq ::= repeat (progress cbn [app] || rewrite <- app_assoc); reflexivity.

(* ---------- literals ---------- *)
Definition lit_ast (l : xlit) : literal :=
  match l with XInt z => LInt z | XStr k => LStr k | XBool b => LBool b | XNull => LNull end.
Definition xlit_good (l : xlit) : Prop :=
  match l with XInt z => z_ok z | XStr k => forallb plain_char k = true | _ => True end.

Lemma contains_false c s : (forall x, In x s -> x <> c) -> contains c s = false.
Proof.
  induction s as [|x s IH]; intros H; [reflexivity|]. cbn [contains].
  destruct (N.eqb_spec x c) as [E|_]; [exfalso; apply (H x (or_introl eq_refl) E)|].
  cbn [orb]. apply IH. intros y Hy. apply H. right. exact Hy.
Qed.

Lemma int_text_chars z x : In x (int_text z) -> x = 45%N \/ is_digit x = true.
Proof.
  unfold int_text. destruct (Z.ltb z 0).
  - intros [<-|H]; [left; reflexivity|]. right. destruct (dec_of_N_spec (Z.to_N (- z))) as [Hd _]. apply (forallb_In _ _ _ Hd H).
  - intros H. right. destruct (dec_of_N_spec (Z.to_N z)) as [Hd _]. apply (forallb_In _ _ _ Hd H).
Qed.

Lemma int_text_no c z : c <> 45%N -> is_digit c = false -> contains c (int_text z) = false.
Proof.
  intros H45 Hd. apply contains_false. intros x Hx E. subst x. destruct (int_text_chars z c Hx) as [E|E]; congruence.
Qed.

Section BL.
  Variable inp : str.

  Lemma b_literal_frag pre l rest :
    inp = pre ++ xlit_text l ++ rest -> xlit_good l ->
    literal_of inp (xlit_pair (length pre) l) = Some (lit_ast l).
  Proof.
    intros Ei Hl. unfold literal_of, b_literal, xlit_pair. cbn [next_down p_kids].
    destruct l as [z|k|[|]| ]; cbn [xlit_text xlit_good lit_ast] in *; rules.
    - rewrite (p_str_at inp _ _ _ _ pre (int_text z) rest Ei eq_refl eq_refl).
      unfold trim_unicode. rewrite trim_no_ends by apply int_text_no_uws.
      rewrite !int_text_no by (discriminate || reflexivity). cbn [orb].
      rewrite (parse_i64_int_text z (z_ok_i64 z Hl)).
      unfold z_ok in Hl. destruct (Z.ltb_spec MAX_VAL z); [lia|]. destruct (Z.ltb_spec z MIN_VAL); [lia|]. reflexivity.
    - rewrite (p_str_at inp _ _ _ _ pre (39%N :: k ++ [39%N]) rest Ei eq_refl eq_refl).
      unfold trim_unicode. rewrite trim_ends by reflexivity. unfold validate_js_str.
      assert (Hv : forallb (fun c => N.ltb 31 c) (39%N :: k ++ [39%N]) = true).
      { cbn [forallb]. rewrite forallb_app. cbn [forallb]. change (N.ltb 31 39) with true. cbn [andb].
        rewrite andb_true_r. rewrite forallb_forall in *. intros c Hc. specialize (Hl c Hc).
        apply plain_char_doc in Hl. apply andb_true_iff in Hl. destruct Hl as [Hl _].
        apply andb_true_iff in Hl. destruct Hl as [Hl _]. apply N.leb_le in Hl. apply N.ltb_lt. lia. }
      rewrite Hv.
      assert (He : ends_with [39%N] (39%N :: k ++ [39%N]) = true).
      { unfold ends_with. cbn [rev]. rewrite rev_app_distr. reflexivity. }
      cbn [starts_with]. rewrite He. change (N.eqb 39 39) with true. cbn [andb orb].
      rewrite removelast_last. reflexivity.
    - rewrite (p_str_at inp _ _ _ _ pre s_true rest Ei eq_refl eq_refl). reflexivity.
    - rewrite (p_str_at inp _ _ _ _ pre s_false rest Ei eq_refl eq_refl). reflexivity.
    - reflexivity.
  Qed.
End BL.

(* ---------- singular queries and comparables ---------- *)
Definition sqs_ast (s : sqs) : sqseg :=
  match s with SQName k => SqName (39%N :: k ++ [39%N]) | SQShort n => SqName n | SQIdx z => SqIndex z end.
Definition sqs_good (s : sqs) : Prop :=
  match s with SQName k => forallb plain_char k = true | SQShort n => name_ok n | SQIdx z => z_ok z end.

Lemma quoted_trim_blank k : trim_blank (39%N :: k ++ [39%N]) = 39%N :: k ++ [39%N].
Proof. unfold trim_blank. apply trim_ends; reflexivity. Qed.

Section BS.
  Variable inp : str.

  Lemma b_sqseg_frag pre s rest :
    inp = pre ++ sqs_text s ++ rest -> sqs_good s ->
    (fun r => if is_rule R_name_segment r then bind (next_down r) (fun k => Some (SqName (trim_blank (p_str inp k))))
              else if is_rule R_index_segment r then
                bind (next_down r) (fun k => bind (parse_i64 (trim_unicode (p_str inp k))) (fun v => bind (validate_range v) (fun v' => Some (SqIndex v'))))
              else None) (sqs_pair (length pre) s) = Some (sqs_ast s).
  Proof.
    intros Ei Hs. unfold sqs_pair. destruct s as [k|n|z]; cbn [sqs_text sqs_good sqs_ast] in *; rules; cbn [next_down p_kids bind].
    - rewrite (p_str_at inp _ _ _ _ (pre ++ [91%N]) (39%N :: k ++ [39%N]) (93%N :: rest)); [|rewrite Ei; list_eq|leq|leq].
      rewrite quoted_trim_blank. reflexivity.
    - destruct (name_trim n Hs) as [Ht _].
      rewrite (p_str_at inp _ _ _ _ (pre ++ [46%N]) n rest); [|rewrite Ei; list_eq|leq|leq]. rewrite Ht. reflexivity.
    - rewrite (p_str_at inp _ _ _ _ (pre ++ [91%N]) (int_text z) (93%N :: rest)); [|rewrite Ei; list_eq|leq|leq].
      unfold trim_unicode. rewrite trim_no_ends by apply int_text_no_uws.
      rewrite (parse_i64_int_text z (z_ok_i64 z Hs)). cbn [bind]. rewrite (validate_range_ok' z Hs). reflexivity.
  Qed.

  Lemma b_sqsegs_frag l : forall pre rest st en,
    inp = pre ++ sqs_list_text l ++ rest -> Forall sqs_good l ->
    b_sqsegs inp (Pair R_singular_query_segments st en (sqs_pairs (length pre) l)) = Some (map sqs_ast l).
  Proof.
    unfold b_sqsegs. cbn [p_kids].
    induction l as [|s l IH]; intros pre rest st en Ei Hl; [reflexivity|].
    pose proof (Forall_inv Hl) as Hs. pose proof (Forall_inv_tail Hl) as Hl'.
    unfold sqs_list_text in Ei. cbn [flat_map] in Ei. fold (sqs_list_text l) in Ei. rewrite <- app_assoc in Ei.
    cbn [sqs_pairs mapM map].
    rewrite (b_sqseg_frag pre s (sqs_list_text l ++ rest) Ei Hs). cbn [bind].
    replace (length pre + length (sqs_text s)) with (length (pre ++ sqs_text s)) by (rewrite app_length; reflexivity).
    rewrite (IH (pre ++ sqs_text s) rest st en); [reflexivity| |exact Hl'].
    rewrite Ei, <- app_assoc. reflexivity.
  Qed.

  Definition xsq_ast (abs : bool) (l : list sqs) : squery :=
    if abs then SqRoot (map sqs_ast l) else SqCur (map sqs_ast l).

  Lemma b_squery_frag pre abs l rest :
    inp = pre ++ xsq_text abs l ++ rest -> Forall sqs_good l ->
    b_squery inp (xsq_pair (length pre) abs l) = Some (xsq_ast abs l).
  Proof.
    intros Ei Hl. unfold b_squery, xsq_pair. cbn [next_down p_kids bind].
    unfold xsq_text in Ei.
    replace (length pre + 1) with (length (pre ++ [if abs then 36%N else 64%N])) by (rewrite app_length; reflexivity).
    rewrite (b_sqsegs_frag l (pre ++ [if abs then 36%N else 64%N]) rest); [|rewrite Ei; list_eq|exact Hl].
    cbn [bind]. destruct abs; rules; reflexivity.
  Qed.

  Definition cmp_ast (c : xcmpb) : comparable :=
    match c with XCLit l => CLit (lit_ast l) | XCSq abs l => CSq (xsq_ast abs l) end.
  Definition xcmpb_good (c : xcmpb) : Prop :=
    match c with XCLit l => xlit_good l | XCSq _ l => Forall sqs_good l end.

  Lemma b_comparable_frag f pre c rest :
    inp = pre ++ xcmpb_text c ++ rest -> xcmpb_good c ->
    b_comparable inp (S f) (xcmpb_pair (length pre) c) = Some (cmp_ast c).
  Proof.
    intros Ei Hc. rewrite b_comparable_step. unfold xcmpb_pair. cbn [next_down p_kids bind].
    destruct c as [l|abs l]; cbn [xcmpb_text xcmpb_good cmp_ast] in *.
    - unfold xlit_pair at 1. rules. fold (xlit_pair (length pre) l).
      rewrite (b_literal_frag inp pre l rest Ei Hc). reflexivity.
    - unfold xsq_pair at 1. rules. fold (xsq_pair (length pre) abs l).
      rewrite (b_squery_frag pre abs l rest Ei Hc). reflexivity.
  Qed.
End BS.

(* ---------- expressions over an abstract kind of selector ---------- *)
Section BE.
  Variable sel : Type.
  Variable stext : sel -> str.
  Variable spair : nat -> sel -> pair rname.
  Variable sgood : sel -> Prop.
  Variable sast : sel -> selector.
  Variable patok : fnarg -> Prop.   (* what is asked of the pattern argument of match/search (True for the round trip) *)
  Variable sfuel : sel -> nat.
  Variable inp : str.
  Hypothesis b_sel : forall f pre s rest,
    inp = pre ++ stext s ++ rest -> sgood s -> sfuel s <= f ->
    b_selector inp (S f) (spair (length pre) s) = Some (sast s).

  Notation xatom := (xatom sel).
  Notation atext := (atext sel stext).
  Notation and_text := (and_text sel stext).
  Notation or_text := (or_text sel stext).
  Notation apair := (apair sel stext spair).
  Notation and_pair := (and_pair sel stext spair).
  Notation or_pair := (or_pair sel stext spair).
  Notation gseg_ast := (gseg_ast sel sast).
  Notation gseg_good := (gseg_good sel sgood).
  Notation qfuel := (qfuel sel sfuel).
  Notation gsegs_text := (gsegs_text sel stext).

  Definition single_or {A} (wrap : list A -> A) (l : list A) : A :=
    match l with [x] => x | _ => wrap l end.

  (* ---------- function calls ---------- *)
  Notation xfn := (xfn sel).
  Notation xarg := (xarg sel).
  Notation ftext := (ftext sel stext).
  Notation argtext := (argtext sel stext).
  Notation fpair := (fpair sel stext spair).
  Notation argpair := (argpair sel stext spair).

  Lemma ftext_fn1 k a : ftext (XFn1 _ k a) = fn1_name k ++ 40%N :: argtext a ++ [41%N].
  Proof. reflexivity. Qed.
  Lemma ftext_fn2 k a b : ftext (XFn2 _ k a b) = fn2_name k ++ 40%N :: argtext a ++ 44%N :: argtext b ++ [41%N].
  Proof. reflexivity. Qed.
  Lemma fpair_fn1 pos k a :
    fpair pos (XFn1 _ k a)
    = Pair R_function_expr pos (pos + length (ftext (XFn1 _ k a)))
           [Pair R_function_name pos (pos + length (fn1_name k)) []; argpair (pos + length (fn1_name k) + 1) a].
  Proof. reflexivity. Qed.
  Lemma fpair_fn2 pos k a b :
    fpair pos (XFn2 _ k a b)
    = Pair R_function_expr pos (pos + length (ftext (XFn2 _ k a b)))
           [Pair R_function_name pos (pos + length (fn2_name k)) [];
            argpair (pos + length (fn2_name k) + 1) a;
            argpair (pos + length (fn2_name k) + 1 + length (argtext a) + 1) b].
  Proof. reflexivity. Qed.
  Lemma argpair_lit pos l :
    argpair pos (XALit _ l) = Pair R_function_argument pos (pos + length (xlit_text l)) [xlit_pair pos l].
  Proof. reflexivity. Qed.
  Lemma argpair_query pos abs q :
    argpair pos (XAQuery _ abs q)
    = let en := pos + length ((if abs then 36%N else 64%N) :: gsegs_text q) in
      Pair R_function_argument pos en
           [Pair R_test pos en [Pair (if abs then R_jp_query else R_rel_query) pos en
                                     [Pair R_segments (pos + 1) en (GenParse.gsegs_pairs sel stext spair (pos + 1) q)]]].
  Proof. reflexivity. Qed.
  Lemma argpair_fn pos f :
    argpair pos (XAFn _ f)
    = Pair R_function_argument pos (pos + length (ftext f)) [Pair R_test pos (pos + length (ftext f)) [fpair pos f]].
  Proof. reflexivity. Qed.

  Definition fn1_k (k : fn1) (a : fnarg) : tfun :=
    match k with FLength => FnLength a | FCount => FnCount a | FValue => FnValue a end.
  Definition fn2_k (k : fn2) (a b : fnarg) : tfun :=
    match k with
    | FMatch => FnMatch a b
    | FSearch => FnSearch a b
    | _ => FnCustom (fn2_name k) (ACons a (ACons b ANil))
    end.
  Definition fn2_pat (k : fn2) (b : fnarg) : Prop :=
    match k with FMatch | FSearch => patok b | _ => True end.
  Fixpoint fn_ast (f : xfn) : tfun :=
    match f with
    | XFn1 _ k a => fn1_k k (arg_ast a)
    | XFn2 _ k a b => fn2_k k (arg_ast a) (arg_ast b)
    end
  with arg_ast (a : xarg) : fnarg :=
    match a with
    | XALit _ l => ArgLit (lit_ast l)
    | XAQuery _ abs q => ArgTest ((if abs then TAbs else TRel) (segments_of_list (map gseg_ast q)))
    | XAFn _ f => ArgTest (TFn (fn_ast f))
    end.

  (* well-typed calls: FnArg::is_value_type / is_nodes_type of parser/model.rs on the arguments *)
  Definition fn1_typed (k : fn1) (a : fnarg) : Prop :=
    match k with FLength => is_value_type a = true | _ => is_nodes_type a = true end.
  Fixpoint fgood (f : xfn) : Prop :=
    match f with
    | XFn1 _ k a => arggood a /\ fn1_typed k (arg_ast a)
    | XFn2 _ k a b => arggood a /\ arggood b /\ is_value_type (arg_ast a) = true /\ is_value_type (arg_ast b) = true /\ fn2_pat k (arg_ast b)
    end
  with arggood (a : xarg) : Prop :=
    match a with
    | XALit _ l => xlit_good l
    | XAQuery _ _ q => Forall gseg_good q
    | XAFn _ f => fgood f
    end.

  Fixpoint ffuel (f : xfn) : nat :=
    match f with
    | XFn1 _ _ a => S (argfuel a)
    | XFn2 _ _ a b => S (Nat.max (argfuel a) (argfuel b))
    end
  with argfuel (a : xarg) : nat :=
    match a with
    | XALit _ _ => 1
    | XAQuery _ _ q => 6 + qfuel q
    | XAFn _ f => S (ffuel f)
    end.

  Definition arg_walk (fu : nat) (arg : pair rname) : option fnarg :=
    bind (next_down arg) (fun next =>
      if is_rule R_literal next then bind (literal_of inp next) (fun l => Some (ArgLit l))
      else if is_rule R_test next then bind (b_test inp fu next) (fun t => Some (ArgTest t))
      else if is_rule R_logical_expr next then bind (b_logical_expr inp fu next) (fun e => Some (ArgFilter e))
      else None).

  Definition Bf (f : xfn) : Prop :=
    forall fu pre rest, inp = pre ++ ftext f ++ rest -> fgood f -> ffuel f <= fu ->
      b_function_expr inp fu (fpair (length pre) f) = Some (fn_ast f).
  Definition Ba (a : xarg) : Prop :=
    forall fu pre rest, inp = pre ++ argtext a ++ rest -> arggood a -> argfuel a <= fu ->
      arg_walk fu (argpair (length pre) a) = Some (arg_ast a).

  Lemma nth_error_mid {A} (l1 : list A) x l2 : nth_error (l1 ++ x :: l2) (length l1) = Some x.
  Proof. induction l1 as [|y l1 IH]; [reflexivity|exact IH]. Qed.

  Lemma try_new_fn1 k a : fn1_typed k a -> tfun_try_new (fn1_name k) [a] = Some (fn1_k k a).
  Proof. destruct k; cbn [fn1_typed fn1_name fn1_k]; intros H; unfold tfun_try_new; vm_compute str_eqb; cbv iota; rewrite H; reflexivity. Qed.
  Lemma try_new_fn2 k a b : is_value_type a = true -> is_value_type b = true ->
    tfun_try_new (fn2_name k) [a; b] = Some (fn2_k k a b).
  Proof. destruct k; cbn [fn2_name fn2_k]; intros Ha Hb; unfold tfun_try_new; vm_compute str_eqb; cbv iota; rewrite ?Ha, ?Hb; reflexivity. Qed.

  Lemma bfn_all : (forall f, Bf f) /\ (forall a, Ba a).
  Proof.
    apply (xfn_xarg_ind sel).
    - (* one argument *)
      intros k a IHa fu pre rest Ei [Hga Hty] Hf. change (ffuel (XFn1 _ k a)) with (S (argfuel a)) in Hf. destruct fu as [|fu]; [lia|].
      change (fn_ast (XFn1 _ k a)) with (fn1_k k (arg_ast a)).
      rewrite fpair_fn1. rewrite ftext_fn1 in *. repeat (rewrite <- app_assoc in Ei; cbn [app] in Ei).
      rewrite b_function_expr_step. cbn [p_kids].
      rewrite (p_str_at inp _ _ _ _ pre (fn1_name k ++ 40%N :: argtext a ++ [41%N]) rest); [|rewrite Ei; list_eq|reflexivity|leq].
      rewrite (p_str_at inp _ _ _ _ pre (fn1_name k) (40%N :: argtext a ++ 41%N :: rest) Ei eq_refl eq_refl).
      rewrite nth_error_mid. change (negb (N.eqb 40 40)) with false. cbv iota.
      cbn [mapM]. fold (arg_walk fu).
      replace (length pre + length (fn1_name k) + 1) with (length (pre ++ fn1_name k ++ [40%N])) by leq.
      assert (Ha : arg_walk fu (argpair (length (pre ++ fn1_name k ++ [40%N])) a) = Some (arg_ast a))
        by (apply (IHa fu (pre ++ fn1_name k ++ [40%N]) (41%N :: rest)); [rewrite Ei; list_eq|exact Hga|lia]).
      unfold arg_walk in Ha. rewrite Ha.
      cbn [bind]. apply try_new_fn1. exact Hty.
    - (* two arguments *)
      intros k a IHa b IHb fu pre rest Ei [Hga [Hgb [Hta [Htb _]]]] Hf.
      change (ffuel (XFn2 _ k a b)) with (S (Nat.max (argfuel a) (argfuel b))) in Hf. destruct fu as [|fu]; [lia|].
      change (fn_ast (XFn2 _ k a b)) with (fn2_k k (arg_ast a) (arg_ast b)).
      rewrite fpair_fn2. rewrite ftext_fn2 in *. repeat (rewrite <- app_assoc in Ei; cbn [app] in Ei).
      rewrite b_function_expr_step. cbn [p_kids].
      rewrite (p_str_at inp _ _ _ _ pre (fn2_name k ++ 40%N :: argtext a ++ 44%N :: argtext b ++ [41%N]) rest); [|rewrite Ei; list_eq|reflexivity|leq].
      rewrite (p_str_at inp _ _ _ _ pre (fn2_name k) (40%N :: argtext a ++ 44%N :: argtext b ++ 41%N :: rest) Ei eq_refl eq_refl).
      rewrite nth_error_mid. change (negb (N.eqb 40 40)) with false. cbv iota.
      cbn [mapM]. fold (arg_walk fu).
      replace (length pre + length (fn2_name k) + 1) with (length (pre ++ fn2_name k ++ [40%N])) by leq.
      assert (Ha : arg_walk fu (argpair (length (pre ++ fn2_name k ++ [40%N])) a) = Some (arg_ast a))
        by (apply (IHa fu (pre ++ fn2_name k ++ [40%N]) (44%N :: argtext b ++ 41%N :: rest)); [rewrite Ei; list_eq|exact Hga|lia]).
      unfold arg_walk in Ha. rewrite Ha. cbn [bind].
      replace (length (pre ++ fn2_name k ++ [40%N]) + length (argtext a) + 1)
        with (length (pre ++ fn2_name k ++ 40%N :: argtext a ++ [44%N])) by leq.
      assert (Hb : arg_walk fu (argpair (length (pre ++ fn2_name k ++ 40%N :: argtext a ++ [44%N])) b) = Some (arg_ast b))
        by (apply (IHb fu (pre ++ fn2_name k ++ 40%N :: argtext a ++ [44%N]) (41%N :: rest)); [rewrite Ei; list_eq|exact Hgb|lia]).
      unfold arg_walk in Hb. rewrite Hb.
      cbn [bind]. apply try_new_fn2; assumption.
    - (* literal *)
      intros l fu pre rest Ei Hg Hf. change (argtext (XALit _ l)) with (xlit_text l) in Ei.
      change (arggood (XALit _ l)) with (xlit_good l) in Hg. change (arg_ast (XALit _ l)) with (ArgLit (lit_ast l)).
      rewrite argpair_lit. unfold arg_walk. cbn [next_down p_kids bind]. unfold xlit_pair at 1. rules. fold (xlit_pair (length pre) l).
      rewrite (b_literal_frag inp pre l rest Ei Hg). reflexivity.
    - (* query *)
      intros abs q fu pre rest Ei Hq Hf. change (argtext (XAQuery _ abs q)) with ((if abs then 36%N else 64%N) :: gsegs_text q) in Ei.
      change (arggood (XAQuery _ abs q)) with (Forall gseg_good q) in Hq.
      change (arg_ast (XAQuery _ abs q)) with (ArgTest ((if abs then TAbs else TRel) (segments_of_list (map gseg_ast q)))).
      change (argfuel (XAQuery _ abs q)) with (6 + qfuel q) in Hf.
      rewrite argpair_query. cbv zeta.
      destruct fu as [|[|[|[|[|[|fu]]]]]]; try lia.
      unfold arg_walk. cbn [next_down p_kids bind]. rules.
      rewrite b_test_step. cbn [next_down p_kids bind].
      assert (Hseg : b_segments inp (S (S (S (S (S fu)))))
                       (Pair R_segments (length pre + 1)
                             (length pre + length ((if abs then 36%N else 64%N) :: gsegs_text q))
                             (GenParse.gsegs_pairs sel stext spair (length pre + 1) q))
                     = Some (segments_of_list (map gseg_ast q))).
      { replace (length pre + 1) with (length (pre ++ [if abs then 36%N else 64%N])) by leq.
        apply (gb_segments sel stext spair sgood sast sfuel inp b_sel fu _ q rest); [rewrite Ei; list_eq|exact Hq|lia]. }
      destruct abs; rules; cbn [next_down p_kids bind]; rewrite Hseg; reflexivity.
    - (* nested call *)
      intros f IHf fu pre rest Ei Hg Hf. change (argtext (XAFn _ f)) with (ftext f) in Ei.
      change (arggood (XAFn _ f)) with (fgood f) in Hg. change (arg_ast (XAFn _ f)) with (ArgTest (TFn (fn_ast f))).
      change (argfuel (XAFn _ f)) with (S (ffuel f)) in Hf. rewrite argpair_fn.
      destruct fu as [|fu]; [lia|].
      unfold arg_walk. cbn [next_down p_kids bind]. rules.
      rewrite b_test_step. cbn [next_down p_kids bind].
      assert (Hr : is_rule R_function_expr (fpair (length pre) f) = true) by (destruct f; reflexivity).
      assert (Hj : is_rule R_jp_query (fpair (length pre) f) = false) by (destruct f; reflexivity).
      assert (Hq : is_rule R_rel_query (fpair (length pre) f) = false) by (destruct f; reflexivity).
      rewrite Hj, Hq, Hr. rewrite (IHf fu pre rest Ei Hg); [reflexivity|lia].
  Qed.

  Lemma bfn f : Bf f.
  Proof. apply bfn_all. Qed.

  (* comparables, function calls included *)
  Definition gcmp_ast (c : xcmp sel) : comparable :=
    match c with XCB _ c => cmp_ast c | XCF _ f => CFn (fn_ast f) end.
  Definition gcmp_good (c : xcmp sel) : Prop :=
    match c with XCB _ c => xcmpb_good c | XCF _ f => fgood f /\ is_comparable_fn (fn_ast f) = true end.
  Definition gcmp_fuel (c : xcmp sel) : nat :=
    match c with XCB _ _ => 1 | XCF _ f => S (ffuel f) end.

  Lemma gb_comparable fu pre c rest :
    inp = pre ++ gcmp_text sel stext c ++ rest -> gcmp_good c -> gcmp_fuel c <= fu ->
    b_comparable inp fu (gcmp_pair sel stext spair (length pre) c) = Some (gcmp_ast c).
  Proof.
    intros Ei Hc Hf. destruct c as [c|f]; cbn [gcmp_text gcmp_good gcmp_fuel gcmp_pair gcmp_ast] in *.
    - destruct fu as [|fu]; [lia|]. apply (b_comparable_frag inp fu pre c rest Ei Hc).
    - destruct Hc as [Hg Hcf]. destruct fu as [|fu]; [lia|]. rewrite b_comparable_step. cbn [next_down p_kids bind].
      assert (Hr : is_rule R_function_expr (fpair (length pre) f) = true) by (destruct f; reflexivity).
      assert (Hl : is_rule R_literal (fpair (length pre) f) = false) by (destruct f; reflexivity).
      assert (Hs : is_rule R_singular_query (fpair (length pre) f) = false) by (destruct f; reflexivity).
      rewrite Hl, Hs, Hr. rewrite (bfn f fu pre rest Ei Hg) by lia. cbn [bind]. rewrite Hcf. reflexivity.
  Qed.

  Fixpoint atom_ast (a : xatom) : atom :=
    match a with
    | XParen _ neg e =>
        AFilter (single_or (fun l => FOr (filters_of_list l))
                   (map (fun c => single_or (fun l => FAnd (filters_of_list l)) (map (fun a => FAtom (atom_ast a)) c)) e)) neg
    | XTest _ neg abs q =>
        ATest ((if abs then TAbs else TRel) (segments_of_list (map gseg_ast q))) neg
    | XCmp _ o l r => ACmp o (gcmp_ast l) (gcmp_ast r)
    | XFnTest _ neg f => ATest (TFn (fn_ast f)) neg
    end.
  Definition and_ast (c : list xatom) : filter :=
    single_or (fun l => FAnd (filters_of_list l)) (map (fun a => FAtom (atom_ast a)) c).
  Definition or_ast (e : list (list xatom)) : filter :=
    single_or (fun l => FOr (filters_of_list l)) (map and_ast e).

  Inductive agood : xatom -> Prop :=
  | agood_paren neg e : e <> [] -> (forall c, In c e -> c <> [] /\ forall a, In a c -> agood a) -> agood (XParen _ neg e)
  | agood_test neg abs q : Forall gseg_good q -> agood (XTest _ neg abs q)
  | agood_cmp o l r : gcmp_good l -> gcmp_good r -> agood (XCmp _ o l r)
  | agood_fn neg f : fgood f -> is_comparable_fn (fn_ast f) = false -> agood (XFnTest _ neg f).

  Fixpoint afuel (a : xatom) : nat :=
    match a with
    | XParen _ _ e => S (S (S (lmax (fun c => lmax afuel c) e)))
    | XTest _ _ _ q => 7 + qfuel q
    | XCmp _ _ l r => S (Nat.max (gcmp_fuel l) (gcmp_fuel r))
    | XFnTest _ _ f => 2 + ffuel f
    end.
  Definition cfuel (c : list xatom) : nat := lmax afuel c.
  Definition efuel (e : list (list xatom)) : nat := lmax cfuel e.

  Definition Batom (a : xatom) : Prop :=
    forall f pre rest, inp = pre ++ atext a ++ rest -> agood a -> afuel a <= f ->
      b_filter_atom inp f (apair (length pre) a) = Some (atom_ast a).

  (* mapM over the pairs of a list joined by a two-character separator *)
  Lemma mapM_sep {A B} (txt : A -> str) (mk : nat -> A -> pair rname) (sep : str) (bf : pair rname -> option B)
        (ast : A -> B) (P : A -> Prop) :
    length sep = 2 ->
    (forall pre x rest, inp = pre ++ txt x ++ rest -> P x -> bf (mk (length pre) x) = Some (ast x)) ->
    forall l pre rest,
      inp = pre ++ join sep txt l ++ rest -> (forall x, In x l -> P x) ->
      mapM bf (pairs_sep (fun x => length (txt x)) mk (length pre) l) = Some (map ast l).
  Proof.
    intros Hsep Hone. induction l as [|x l IH]; intros pre rest Ei HP; [reflexivity|].
    rewrite join_cons in Ei. rewrite pairs_sep_cons. cbn [mapM map].
    rewrite <- app_assoc in Ei.
    rewrite (Hone pre x (flat_map (fun y => sep ++ txt y) l ++ rest) Ei (HP x (or_introl eq_refl))). cbn [bind].
    destruct l as [|y l]; [reflexivity|].
    replace (length pre + length (txt x) + 2) with (length (pre ++ txt x ++ sep))
      by (rewrite !app_length, Hsep; lia).
    rewrite (IH (pre ++ txt x ++ sep) rest); [reflexivity| |intros z Hz; apply HP; right; exact Hz].
    rewrite Ei. rewrite (join_cons sep txt y l). cbn [flat_map]. repeat rewrite <- app_assoc. reflexivity.
  Qed.

  Lemma agood_fn_inv neg f : agood (XFnTest _ neg f) -> fgood f /\ is_comparable_fn (fn_ast f) = false.
  Proof. intros H. inversion H. split; assumption. Qed.
  Lemma agood_cmp_inv o l r : agood (XCmp _ o l r) -> gcmp_good l /\ gcmp_good r.
  Proof. intros H. inversion H. split; assumption. Qed.
  Lemma agood_test_inv neg abs q : agood (XTest _ neg abs q) -> Forall gseg_good q.
  Proof. intros H. inversion H. assumption. Qed.
  Lemma agood_paren_inv neg e : agood (XParen _ neg e) ->
    e <> [] /\ (forall c, In c e -> c <> [] /\ forall a, In a c -> agood a).
  Proof. intros H. inversion H. split; assumption. Qed.

  Lemma cmp_op_of_text o : cmp_op_of (op_text o) = Some o.
  Proof. destruct o; reflexivity. Qed.

  Lemma batom_cmp o l r : Batom (XCmp _ o l r).
  Proof.
    intros f pre rest Ei Hg Hf. destruct (agood_cmp_inv o l r Hg) as [Hl Hr]. cbn [afuel] in Hf.
    destruct f as [|f]; try lia. cbn [FilterParse.atext FilterParse.apair atom_ast] in *.
    rewrite b_filter_atom_step. cbn [next_down p_kids bind]. unfold gxcmp_pair. rules. cbn [p_kids].
    unfold gxcmp_text in Ei. repeat rewrite <- app_assoc in Ei.
    set (tl := gcmp_text sel stext l) in *. set (tr := gcmp_text sel stext r) in *.
    rewrite (gb_comparable f pre l (op_text o ++ tr ++ rest) Ei Hl) by lia. cbn [bind].
    replace (length pre + length tl + length (op_text o)) with (length (pre ++ tl ++ op_text o)) by leq.
    rewrite (gb_comparable f (pre ++ tl ++ op_text o) r rest); [|rewrite Ei; list_eq|exact Hr|lia]. cbn [bind].
    rewrite (p_str_at inp _ _ _ _ (pre ++ tl) (op_text o) (tr ++ rest)); [|rewrite Ei; list_eq|leq|leq].
    rewrite cmp_op_of_text. reflexivity.
  Qed.

  Lemma fold_not_then {A} (isr : pair rname -> bool) (g : pair rname -> option A) neg pos p :
    isr (Pair R_not_op pos (pos + 1) []) = false -> isr p = true ->
    fold_left (fun acc r => bind acc (fun cur => if isr r then bind (g r) (fun e => Some (Some e)) else Some cur))
              (not_pairs neg pos ++ [p]) (Some None)
    = bind (g p) (fun e => Some (Some e)).
  Proof.
    intros Hn Hp. destruct neg; cbn [not_pairs app fold_left bind]; rewrite ?Hn, Hp; reflexivity.
  Qed.

  Lemma existsb_not neg pos p : is_rule R_not_op p = false ->
    existsb (is_rule R_not_op) (not_pairs neg pos ++ [p]) = neg.
  Proof. intros H. destruct neg; cbn [not_pairs app existsb]; rewrite H; reflexivity. Qed.

  Lemma batom_test neg abs q : Batom (XTest _ neg abs q).
  Proof.
    intros f pre rest Ei Hg Hf. pose proof (agood_test_inv neg abs q Hg) as Hq. cbn [afuel] in Hf.
    destruct f as [|[|[|[|[|[|[|f]]]]]]]; try lia.
    cbn [FilterParse.atext FilterParse.apair atom_ast] in *.
    rewrite b_filter_atom_step. cbn [next_down p_kids bind]. rules. cbn [p_kids].
    rewrite existsb_not by reflexivity.
    rewrite (fold_not_then (is_rule R_test) (b_test inp (S (S (S (S (S (S f))))))) neg (length pre)); [|reflexivity|reflexivity].
    rewrite b_test_step. cbn [next_down p_kids bind].
    assert (Hseg : b_segments inp (S (S (S (S (S f)))))
                     (Pair R_segments (length pre + length (bang neg) + 1)
                           (length pre + length (bang neg ++ (if abs then 36%N else 64%N) :: gsegs_text q))
                           (GenParse.gsegs_pairs sel stext spair (length pre + length (bang neg) + 1) q))
                   = Some (segments_of_list (map gseg_ast q))).
    { replace (length pre + length (bang neg) + 1) with (length (pre ++ bang neg ++ [if abs then 36%N else 64%N])) by leq.
      apply (gb_segments sel stext spair sgood sast sfuel inp b_sel f _ q rest); [rewrite Ei; list_eq|exact Hq|lia]. }
    destruct abs; rules; cbn [next_down p_kids bind]; rewrite Hseg; reflexivity.
  Qed.

  Lemma batom_fntest neg f : Batom (XFnTest _ neg f).
  Proof.
    intros fu pre rest Ei Hg Hf. destruct (agood_fn_inv neg f Hg) as [Hgf Hnc]. cbn [afuel] in Hf.
    destruct fu as [|[|fu]]; try lia.
    cbn [FilterParse.atext FilterParse.apair atom_ast] in *.
    rewrite b_filter_atom_step. cbn [next_down p_kids bind]. rules. cbn [p_kids].
    rewrite existsb_not by reflexivity.
    rewrite (fold_not_then (is_rule R_test) (b_test inp (S fu)) neg (length pre)); [|reflexivity|reflexivity].
    rewrite b_test_step. cbn [next_down p_kids bind].
    assert (Hr : is_rule R_function_expr (fpair (length pre + length (bang neg)) f) = true) by (destruct f; reflexivity).
    assert (Hj : is_rule R_jp_query (fpair (length pre + length (bang neg)) f) = false) by (destruct f; reflexivity).
    assert (Hq : is_rule R_rel_query (fpair (length pre + length (bang neg)) f) = false) by (destruct f; reflexivity).
    rewrite Hj, Hq, Hr.
    replace (length pre + length (bang neg)) with (length (pre ++ bang neg)) by leq.
    rewrite (bfn f fu (pre ++ bang neg) rest); [|rewrite Ei; list_eq|exact Hgf|lia].
    cbn [bind]. rewrite Hnc. reflexivity.
  Qed.

  Lemma lmax_le {A} (f : A -> nat) l x : In x l -> f x <= lmax f l.
  Proof.
    induction l as [|y l IH]; intros H; [destruct H|]. cbn [lmax fold_right]. fold (lmax f l).
    destruct H as [->|H]; [lia|]. specialize (IH H). lia.
  Qed.

  Lemma single_or_map {A B} (wrap : list B -> B) (g : A -> B) (l : list A) :
    match map g l with [x] => Some x | _ => Some (wrap (map g l)) end = Some (single_or wrap (map g l)).
  Proof. destruct l as [|x [|y l]]; reflexivity. Qed.

  Lemma b_and c :
    (forall a, In a c -> Batom a /\ agood a) ->
    forall f pre rest, inp = pre ++ and_text c ++ rest -> cfuel c < f ->
      b_logical_expr_and inp f (and_pair (length pre) c) = Some (and_ast c).
  Proof.
    intros Hc f pre rest Ei Hf. destruct f as [|f]; [lia|]. rewrite b_logical_expr_and_step. unfold FilterParse.and_pair. cbn [p_kids].
    unfold FilterParse.and_text in Ei.
    rewrite (mapM_sep atext apair s_and (fun r => bind (b_filter_atom inp f r) (fun a => Some (FAtom a)))
                      (fun a => FAtom (atom_ast a)) (fun a => Batom a /\ agood a /\ afuel a <= f) eq_refl) with (rest := rest).
    - cbn [bind]. unfold and_ast, single_or. destruct c as [|x [|y c]]; reflexivity.
    - intros pre0 x rest0 E0 [HB [Hg Hfx]]. rewrite (HB f pre0 rest0 E0 Hg Hfx). reflexivity.
    - exact Ei.
    - intros x Hx. destruct (Hc x Hx) as [HB Hg]. split; [exact HB|split; [exact Hg|]].
      pose proof (lmax_le afuel c x Hx). unfold cfuel in Hf. lia.
  Qed.

  Lemma b_or e :
    (forall c, In c e -> forall a, In a c -> Batom a /\ agood a) ->
    forall f pre rest, inp = pre ++ or_text e ++ rest -> S (efuel e) < f ->
      b_logical_expr inp f (or_pair (length pre) e) = Some (or_ast e).
  Proof.
    intros He f pre rest Ei Hf. destruct f as [|f]; [lia|]. rewrite b_logical_expr_step. unfold FilterParse.or_pair. cbn [p_kids].
    unfold FilterParse.or_text in Ei.
    rewrite (mapM_sep and_text and_pair s_or (b_logical_expr_and inp f) and_ast
                      (fun c => (forall a, In a c -> Batom a /\ agood a) /\ cfuel c < f) eq_refl) with (rest := rest).
    - cbn [bind]. unfold or_ast, single_or. destruct e as [|x [|y e]]; reflexivity.
    - intros pre0 c rest0 E0 [Hc Hfc]. apply (b_and c Hc f pre0 rest0 E0 Hfc).
    - exact Ei.
    - intros c Hc. split; [apply He; exact Hc|]. pose proof (lmax_le cfuel e c Hc). unfold efuel in Hf. lia.
  Qed.

  Lemma batom_paren neg e :
    (forall c, In c e -> forall a, In a c -> Batom a) -> Batom (XParen _ neg e).
  Proof.
    intros HB f pre rest Ei Hg Hf. destruct (agood_paren_inv neg e Hg) as [Hne He]. cbn [afuel] in Hf.
    destruct f as [|f]; [lia|]. cbn [FilterParse.atext FilterParse.apair atom_ast] in *.
    rewrite b_filter_atom_step. cbn [next_down p_kids bind]. rules. cbn [p_kids].
    rewrite existsb_not by reflexivity.
    fold (or_text e) in Ei.
    change (Pair R_logical_expr (length pre + length (bang neg) + 1)
                 (length pre + length (bang neg) + 1 + length (or_text e))
                 (pairs_sep (fun c => length (and_text c))
                            (fun p c => Pair R_logical_expr_and p (p + length (and_text c))
                                             (pairs_sep (fun a => length (atext a)) apair p c))
                            (length pre + length (bang neg) + 1) e))
      with (or_pair (length pre + length (bang neg) + 1) e).
    rewrite (fold_not_then (is_rule R_logical_expr) (b_logical_expr inp f) neg (length pre)); [|reflexivity|reflexivity].
    replace (length pre + length (bang neg) + 1) with (length (pre ++ bang neg ++ [40%N])) by leq.
    rewrite (b_or e) with (rest := 41%N :: rest).
    - reflexivity.
    - intros c Hc a Ha. split; [apply (HB c Hc a Ha)|]. destruct (He c Hc) as [_ H]. apply H. exact Ha.
    - rewrite Ei. list_eq.
    - fold cfuel in Hf. fold (efuel e) in Hf. lia.
  Qed.

  Theorem batom_all : forall n a, asize sel a <= n -> Batom a.
  Proof.
    induction n as [|n IH]; intros a Hs.
    - destruct a; cbn [asize] in Hs; lia.
    - destruct a as [neg e|neg abs q|o l r|neg f].
      + apply batom_paren. intros c Hc a Ha. apply IH. pose proof (asize_in_paren sel neg e c a Hc Ha). lia.
      + apply batom_test.
      + apply batom_cmp.
      + apply batom_fntest.
  Qed.

  (* the filter selector *)
  Definition egood (e : list (list xatom)) : Prop :=
    e <> [] /\ (forall c, In c e -> c <> [] /\ forall a, In a c -> agood a).

  Lemma b_filter_selector f pre e rest :
    inp = pre ++ filter_text sel stext e ++ rest -> egood e -> 2 + efuel e <= f ->
    b_selector inp (S f) (filter_pair sel stext spair (length pre) e) = Some (SelFilter (or_ast e)).
  Proof.
    intros Ei [Hne He] Hf. rewrite b_selector_step. unfold filter_pair. cbn [next_down p_kids bind]. rules.
    cbn [next_down p_kids bind]. unfold filter_text in Ei.
    replace (length pre + 1) with (length (pre ++ [63%N])) by leq.
    rewrite (b_or e) with (rest := rest).
    - reflexivity.
    - intros c Hc a Ha. split; [apply (batom_all (asize sel a) a (le_n _))|]. destruct (He c Hc) as [_ H]. apply H. exact Ha.
    - rewrite Ei. list_eq.
    - lia.
  Qed.
End BE.

(* ---------- the tower on the Build side ---------- *)
Definition BSpec (sel : Type) (stext : sel -> str) (spair : nat -> sel -> pair rname)
           (sgood : sel -> Prop) (sast : sel -> selector) (sfuel : sel -> nat) : Prop :=
  forall inp f pre s rest,
    inp = pre ++ stext s ++ rest -> sgood s -> sfuel s <= f ->
    b_selector inp (S f) (spair (length pre) s) = Some (sast s).

Definition plain_good (s : fsel) : Prop := sel_ok s /\ sel_range s.

Lemma plain_bspec : BSpec fsel sel_text sel_pair plain_good sel_ast (fun _ => 0).
Proof. intros inp f pre s rest Ei [Hs Hr] _. apply (b_selector_frag inp f pre s rest Ei Hs Hr). Qed.

Section BLevel.
  Variable sel : Type.
  Variable stext : sel -> str.
  Variable spair : nat -> sel -> pair rname.
  Variable sgood : sel -> Prop.
  Variable sast : sel -> selector.
  Variable patok : fnarg -> Prop.
  Variable sfuel : sel -> nat.
  Hypothesis HB : BSpec sel stext spair sgood sast sfuel.

  Definition sgood' (s : sel' sel) : Prop :=
    match s with inl p => plain_good p | inr e => egood sel sgood sast patok e end.
  Definition sast' (s : sel' sel) : selector :=
    match s with inl p => sel_ast p | inr e => SelFilter (or_ast sel sast e) end.
  Definition sfuel' (s : sel' sel) : nat :=
    match s with inl _ => 0 | inr e => 2 + efuel sel sfuel e end.

  Lemma level_bspec : BSpec (sel' sel) (stext' sel stext) (spair' sel stext spair) sgood' sast' sfuel'.
  Proof.
    intros inp f pre [p|e] rest Ei Hg Hf; cbn [stext' spair' sgood' sast' sfuel'] in *.
    - destruct Hg as [Hs Hr]. apply (b_selector_frag inp f pre p rest Ei Hs Hr).
    - apply (b_filter_selector sel stext spair sgood sast patok sfuel inp (HB inp) f pre e rest Ei Hg Hf).
  Qed.
End BLevel.

Fixpoint sastT (n : nat) : SelT n -> selector :=
  match n with O => sel_ast | S k => sast' (SelT k) (sastT k) end.
Fixpoint sgoodT (patok : fnarg -> Prop) (n : nat) : SelT n -> Prop :=
  match n with O => plain_good | S k => sgood' (SelT k) (sgoodT patok k) (sastT k) patok end.
Fixpoint sfuelT (n : nat) : SelT n -> nat :=
  match n with O => (fun _ => 0) | S k => sfuel' (SelT k) (sfuelT k) end.

Theorem tower_bspec patok n : BSpec (SelT n) (stextT n) (spairT n) (sgoodT patok n) (sastT n) (sfuelT n).
Proof.
  induction n as [|n IH]; [exact plain_bspec|]. cbn [SelT stextT spairT sgoodT sastT sfuelT]. apply level_bspec. exact IH.
Qed.
