(* FilterBuild.v — parser.rs (Build.v) on the pair trees of FilterParse.v: literals, singular queries,
   comparisons, tests, parentheses, && and ||, filter selectors, to any nesting depth; and the round trip
   parse_query (canonical text) = POk (AST) for the whole tower. *)
From Coq Require Import List Arith NArith ZArith Bool Lia.
From JP Require Import Base Ast Peg PegFacts NormPath NormPathFacts Dec2Bin Known Build BuildSteps
  NpParse NpBuild FragParse FragBuild GenParse GenBuild FilterParse BaseFacts.
From JP.gen Require Import Grammar.
Import ListNotations.
Local Open Scope nat_scope.

Ltac leq := repeat (first [rewrite app_length | progress cbn [length]]); lia.

(* ---------- literals ---------- *)
Definition lit_ast (l : xlit) : literal :=
  match l with XInt z => LInt z | XStr k => LStr k | XBool b => LBool b | XNull => LNull end.
Definition xlit_good (l : xlit) : Prop :=
  match l with XInt z => z_ok z | XStr k => forallb plain_char k = true | _ => True end.

Lemma contains_false c s : (forall x, In x s -> x <> c) -> contains c s = false.
Proof.
  induction s as [|x s IH]; intros H; [reflexivity|]. cbn [contains].
  destruct (N.eqb_spec x c) as [E|_]; [exfalso; apply (H x (or_introl eq_refl) E)|].
  cbn [orb]. apply IH. intros y Hy. apply H. right. exact Hy.
Qed.

Lemma int_text_chars z x : In x (int_text z) -> x = 45%N \/ is_digit x = true.
Proof.
  unfold int_text. destruct (Z.ltb z 0).
  - intros [<-|H]; [left; reflexivity|]. right. destruct (dec_of_N_spec (Z.to_N (- z))) as [Hd _]. apply (forallb_In _ _ _ Hd H).
  - intros H. right. destruct (dec_of_N_spec (Z.to_N z)) as [Hd _]. apply (forallb_In _ _ _ Hd H).
Qed.

Lemma int_text_no c z : c <> 45%N -> is_digit c = false -> contains c (int_text z) = false.
Proof.
  intros H45 Hd. apply contains_false. intros x Hx E. subst x. destruct (int_text_chars z c Hx) as [E|E]; congruence.
Qed.

Section BL.
  Variable inp : str.

  Lemma b_literal_frag pre l rest :
    inp = pre ++ xlit_text l ++ rest -> xlit_good l ->
    literal_of inp (xlit_pair (length pre) l) = Some (lit_ast l).
  Proof.
    intros Ei Hl. unfold literal_of, b_literal, xlit_pair. cbn [next_down p_kids].
    destruct l as [z|k|[|]| ]; cbn [xlit_text xlit_good lit_ast] in *; rules.
    - rewrite (p_str_at inp _ _ _ _ pre (int_text z) rest Ei eq_refl eq_refl).
      unfold trim_unicode. rewrite trim_no_ends by apply int_text_no_uws.
      rewrite !int_text_no by (discriminate || reflexivity). cbn [orb].
      rewrite (parse_i64_int_text z (z_ok_i64 z Hl)).
      unfold z_ok in Hl. destruct (Z.ltb_spec MAX_VAL z); [lia|]. destruct (Z.ltb_spec z MIN_VAL); [lia|]. reflexivity.
    - rewrite (p_str_at inp _ _ _ _ pre (39%N :: k ++ [39%N]) rest Ei eq_refl eq_refl).
      unfold trim_unicode. rewrite trim_ends by reflexivity. unfold validate_js_str.
      assert (Hv : forallb (fun c => N.ltb 31 c) (39%N :: k ++ [39%N]) = true).
      { cbn [forallb]. rewrite forallb_app. cbn [forallb]. change (N.ltb 31 39) with true. cbn [andb].
        rewrite andb_true_r. rewrite forallb_forall in *. intros c Hc. specialize (Hl c Hc).
        apply plain_char_doc in Hl. apply andb_true_iff in Hl. destruct Hl as [Hl _].
        apply andb_true_iff in Hl. destruct Hl as [Hl _]. apply N.leb_le in Hl. apply N.ltb_lt. lia. }
      rewrite Hv.
      assert (He : ends_with [39%N] (39%N :: k ++ [39%N]) = true).
      { unfold ends_with. cbn [rev]. rewrite rev_app_distr. reflexivity. }
      cbn [starts_with]. rewrite He. change (N.eqb 39 39) with true. cbn [andb orb].
      rewrite removelast_last. reflexivity.
    - rewrite (p_str_at inp _ _ _ _ pre s_true rest Ei eq_refl eq_refl). reflexivity.
    - rewrite (p_str_at inp _ _ _ _ pre s_false rest Ei eq_refl eq_refl). reflexivity.
    - reflexivity.
  Qed.
End BL.

(* ---------- singular queries and comparables ---------- *)
Definition sqs_ast (s : sqs) : sqseg :=
  match s with SQName k => SqName (39%N :: k ++ [39%N]) | SQShort n => SqName n | SQIdx z => SqIndex z end.
Definition sqs_good (s : sqs) : Prop :=
  match s with SQName k => forallb plain_char k = true | SQShort n => name_ok n | SQIdx z => z_ok z end.

Lemma quoted_trim_blank k : trim_blank (39%N :: k ++ [39%N]) = 39%N :: k ++ [39%N].
Proof. unfold trim_blank. apply trim_ends; reflexivity. Qed.

Section BS.
  Variable inp : str.

  Lemma b_sqseg_frag pre s rest :
    inp = pre ++ sqs_text s ++ rest -> sqs_good s ->
    (fun r => if is_rule R_name_segment r then bind (next_down r) (fun k => Some (SqName (trim_blank (p_str inp k))))
              else if is_rule R_index_segment r then
                bind (next_down r) (fun k => bind (parse_i64 (trim_unicode (p_str inp k))) (fun v => bind (validate_range v) (fun v' => Some (SqIndex v'))))
              else None) (sqs_pair (length pre) s) = Some (sqs_ast s).
  Proof.
    intros Ei Hs. unfold sqs_pair. destruct s as [k|n|z]; cbn [sqs_text sqs_good sqs_ast] in *; rules; cbn [next_down p_kids bind].
    - rewrite (p_str_at inp _ _ _ _ (pre ++ [91%N]) (39%N :: k ++ [39%N]) (93%N :: rest)); [|rewrite Ei; list_eq|leq|leq].
      rewrite quoted_trim_blank. reflexivity.
    - destruct (name_trim n Hs) as [Ht _].
      rewrite (p_str_at inp _ _ _ _ (pre ++ [46%N]) n rest); [|rewrite Ei; list_eq|leq|leq]. rewrite Ht. reflexivity.
    - rewrite (p_str_at inp _ _ _ _ (pre ++ [91%N]) (int_text z) (93%N :: rest)); [|rewrite Ei; list_eq|leq|leq].
      unfold trim_unicode. rewrite trim_no_ends by apply int_text_no_uws.
      rewrite (parse_i64_int_text z (z_ok_i64 z Hs)). cbn [bind]. rewrite (validate_range_ok' z Hs). reflexivity.
  Qed.

  Lemma b_sqsegs_frag l : forall pre rest st en,
    inp = pre ++ sqs_list_text l ++ rest -> Forall sqs_good l ->
    b_sqsegs inp (Pair R_singular_query_segments st en (sqs_pairs (length pre) l)) = Some (map sqs_ast l).
  Proof.
    unfold b_sqsegs. cbn [p_kids].
    induction l as [|s l IH]; intros pre rest st en Ei Hl; [reflexivity|].
    pose proof (Forall_inv Hl) as Hs. pose proof (Forall_inv_tail Hl) as Hl'.
    unfold sqs_list_text in Ei. cbn [flat_map] in Ei. fold (sqs_list_text l) in Ei. rewrite <- app_assoc in Ei.
    cbn [sqs_pairs mapM map].
    rewrite (b_sqseg_frag pre s (sqs_list_text l ++ rest) Ei Hs). cbn [bind].
    replace (length pre + length (sqs_text s)) with (length (pre ++ sqs_text s)) by (rewrite app_length; reflexivity).
    rewrite (IH (pre ++ sqs_text s) rest st en); [reflexivity| |exact Hl'].
    rewrite Ei, <- app_assoc. reflexivity.
  Qed.

  Definition xsq_ast (abs : bool) (l : list sqs) : squery :=
    if abs then SqRoot (map sqs_ast l) else SqCur (map sqs_ast l).

  Lemma b_squery_frag pre abs l rest :
    inp = pre ++ xsq_text abs l ++ rest -> Forall sqs_good l ->
    b_squery inp (xsq_pair (length pre) abs l) = Some (xsq_ast abs l).
  Proof.
    intros Ei Hl. unfold b_squery, xsq_pair. cbn [next_down p_kids bind].
    unfold xsq_text in Ei.
    replace (length pre + 1) with (length (pre ++ [if abs then 36%N else 64%N])) by (rewrite app_length; reflexivity).
    rewrite (b_sqsegs_frag l (pre ++ [if abs then 36%N else 64%N]) rest); [|rewrite Ei; list_eq|exact Hl].
    cbn [bind]. destruct abs; rules; reflexivity.
  Qed.

  Definition cmp_ast (c : xcmpb) : comparable :=
    match c with XCLit l => CLit (lit_ast l) | XCSq abs l => CSq (xsq_ast abs l) end.
  Definition xcmpb_good (c : xcmpb) : Prop :=
    match c with XCLit l => xlit_good l | XCSq _ l => Forall sqs_good l end.

  Lemma b_comparable_frag f pre c rest :
    inp = pre ++ xcmpb_text c ++ rest -> xcmpb_good c ->
    b_comparable inp (S f) (xcmpb_pair (length pre) c) = Some (cmp_ast c).
  Proof.
    intros Ei Hc. rewrite b_comparable_step. unfold xcmpb_pair. cbn [next_down p_kids bind].
    destruct c as [l|abs l]; cbn [xcmpb_text xcmpb_good cmp_ast] in *.
    - unfold xlit_pair at 1. rules. fold (xlit_pair (length pre) l).
      rewrite (b_literal_frag inp pre l rest Ei Hc). reflexivity.
    - unfold xsq_pair at 1. rules. fold (xsq_pair (length pre) abs l).
      rewrite (b_squery_frag pre abs l rest Ei Hc). reflexivity.
  Qed.
End BS.

(* ---------- expressions over an abstract kind of selector ---------- *)
Section BE.
  Variable sel : Type.
  Variable stext : sel -> str.
  Variable spair : nat -> sel -> pair rname.
  Variable sgood : sel -> Prop.
  Variable sast : sel -> selector.
  Variable sfuel : sel -> nat.
  Variable inp : str.
  Hypothesis b_sel : forall f pre s rest,
    inp = pre ++ stext s ++ rest -> sgood s -> sfuel s <= f ->
    b_selector inp (S f) (spair (length pre) s) = Some (sast s).

  Notation xatom := (xatom sel).
  Notation atext := (atext sel stext).
  Notation and_text := (and_text sel stext).
  Notation or_text := (or_text sel stext).
  Notation apair := (apair sel stext spair).
  Notation and_pair := (and_pair sel stext spair).
  Notation or_pair := (or_pair sel stext spair).
  Notation gseg_ast := (gseg_ast sel sast).
  Notation gseg_good := (gseg_good sel sgood).
  Notation qfuel := (qfuel sel sfuel).
  Notation gsegs_text := (gsegs_text sel stext).

  Definition single_or {A} (wrap : list A -> A) (l : list A) : A :=
    match l with [x] => x | _ => wrap l end.

  Fixpoint atom_ast (a : xatom) : atom :=
    match a with
    | XParen _ neg e =>
        AFilter (single_or (fun l => FOr (filters_of_list l))
                   (map (fun c => single_or (fun l => FAnd (filters_of_list l)) (map (fun a => FAtom (atom_ast a)) c)) e)) neg
    | XTest _ neg abs q =>
        ATest ((if abs then TAbs else TRel) (segments_of_list (map gseg_ast q))) neg
    | XCmp _ o l r => ACmp o (cmp_ast l) (cmp_ast r)
    end.
  Definition and_ast (c : list xatom) : filter :=
    single_or (fun l => FAnd (filters_of_list l)) (map (fun a => FAtom (atom_ast a)) c).
  Definition or_ast (e : list (list xatom)) : filter :=
    single_or (fun l => FOr (filters_of_list l)) (map and_ast e).

  Inductive agood : xatom -> Prop :=
  | agood_paren neg e : e <> [] -> (forall c, In c e -> c <> [] /\ forall a, In a c -> agood a) -> agood (XParen _ neg e)
  | agood_test neg abs q : Forall gseg_good q -> agood (XTest _ neg abs q)
  | agood_cmp o l r : xcmpb_good l -> xcmpb_good r -> agood (XCmp _ o l r).

  Fixpoint afuel (a : xatom) : nat :=
    match a with
    | XParen _ _ e => S (S (S (lmax (fun c => lmax afuel c) e)))
    | XTest _ _ _ q => 7 + qfuel q
    | XCmp _ _ _ _ => 2
    end.
  Definition cfuel (c : list xatom) : nat := lmax afuel c.
  Definition efuel (e : list (list xatom)) : nat := lmax cfuel e.

  Definition Batom (a : xatom) : Prop :=
    forall f pre rest, inp = pre ++ atext a ++ rest -> agood a -> afuel a <= f ->
      b_filter_atom inp f (apair (length pre) a) = Some (atom_ast a).

  (* mapM over the pairs of a list joined by a two-character separator *)
  Lemma mapM_sep {A B} (txt : A -> str) (mk : nat -> A -> pair rname) (sep : str) (bf : pair rname -> option B)
        (ast : A -> B) (P : A -> Prop) :
    length sep = 2 ->
    (forall pre x rest, inp = pre ++ txt x ++ rest -> P x -> bf (mk (length pre) x) = Some (ast x)) ->
    forall l pre rest,
      inp = pre ++ join sep txt l ++ rest -> (forall x, In x l -> P x) ->
      mapM bf (pairs_sep (fun x => length (txt x)) mk (length pre) l) = Some (map ast l).
  Proof.
    intros Hsep Hone. induction l as [|x l IH]; intros pre rest Ei HP; [reflexivity|].
    rewrite join_cons in Ei. rewrite pairs_sep_cons. cbn [mapM map].
    rewrite <- app_assoc in Ei.
    rewrite (Hone pre x (flat_map (fun y => sep ++ txt y) l ++ rest) Ei (HP x (or_introl eq_refl))). cbn [bind].
    destruct l as [|y l]; [reflexivity|].
    replace (length pre + length (txt x) + 2) with (length (pre ++ txt x ++ sep))
      by (rewrite !app_length, Hsep; lia).
    rewrite (IH (pre ++ txt x ++ sep) rest); [reflexivity| |intros z Hz; apply HP; right; exact Hz].
    rewrite Ei. rewrite (join_cons sep txt y l). cbn [flat_map]. repeat rewrite <- app_assoc. reflexivity.
  Qed.

  Lemma agood_cmp_inv o l r : agood (XCmp _ o l r) -> xcmpb_good l /\ xcmpb_good r.
  Proof. intros H. inversion H. split; assumption. Qed.
  Lemma agood_test_inv neg abs q : agood (XTest _ neg abs q) -> Forall gseg_good q.
  Proof. intros H. inversion H. assumption. Qed.
  Lemma agood_paren_inv neg e : agood (XParen _ neg e) ->
    e <> [] /\ (forall c, In c e -> c <> [] /\ forall a, In a c -> agood a).
  Proof. intros H. inversion H. split; assumption. Qed.

  Lemma cmp_op_of_text o : cmp_op_of (op_text o) = Some o.
  Proof. destruct o; reflexivity. Qed.

  Lemma batom_cmp o l r : Batom (XCmp _ o l r).
  Proof.
    intros f pre rest Ei Hg Hf. destruct (agood_cmp_inv o l r Hg) as [Hl Hr]. cbn [afuel] in Hf.
    destruct f as [|[|f]]; try lia. cbn [FilterParse.atext FilterParse.apair atom_ast] in *.
    rewrite b_filter_atom_step. cbn [next_down p_kids bind]. unfold xcmp_pair. rules. cbn [p_kids].
    unfold xcmp_text in Ei. repeat rewrite <- app_assoc in Ei.
    rewrite (b_comparable_frag inp f pre l (op_text o ++ xcmpb_text r ++ rest) Ei Hl). cbn [bind].
    replace (length pre + length (xcmpb_text l) + length (op_text o)) with (length (pre ++ xcmpb_text l ++ op_text o)) by leq.
    rewrite (b_comparable_frag inp f (pre ++ xcmpb_text l ++ op_text o) r rest); [|rewrite Ei; list_eq|exact Hr]. cbn [bind].
    rewrite (p_str_at inp _ _ _ _ (pre ++ xcmpb_text l) (op_text o) (xcmpb_text r ++ rest)); [|rewrite Ei; list_eq|leq|leq].
    rewrite cmp_op_of_text. reflexivity.
  Qed.

  Lemma fold_not_then {A} (isr : pair rname -> bool) (g : pair rname -> option A) neg pos p :
    isr (Pair R_not_op pos (pos + 1) []) = false -> isr p = true ->
    fold_left (fun acc r => bind acc (fun cur => if isr r then bind (g r) (fun e => Some (Some e)) else Some cur))
              (not_pairs neg pos ++ [p]) (Some None)
    = bind (g p) (fun e => Some (Some e)).
  Proof.
    intros Hn Hp. destruct neg; cbn [not_pairs app fold_left bind]; rewrite ?Hn, Hp; reflexivity.
  Qed.

  Lemma existsb_not neg pos p : is_rule R_not_op p = false ->
    existsb (is_rule R_not_op) (not_pairs neg pos ++ [p]) = neg.
  Proof. intros H. destruct neg; cbn [not_pairs app existsb]; rewrite H; reflexivity. Qed.

  Lemma batom_test neg abs q : Batom (XTest _ neg abs q).
  Proof.
    intros f pre rest Ei Hg Hf. pose proof (agood_test_inv neg abs q Hg) as Hq. cbn [afuel] in Hf.
    destruct f as [|[|[|[|[|[|[|f]]]]]]]; try lia.
    cbn [FilterParse.atext FilterParse.apair atom_ast] in *.
    rewrite b_filter_atom_step. cbn [next_down p_kids bind]. rules. cbn [p_kids].
    rewrite existsb_not by reflexivity.
    rewrite (fold_not_then (is_rule R_test) (b_test inp (S (S (S (S (S (S f))))))) neg (length pre)); [|reflexivity|reflexivity].
    rewrite b_test_step. cbn [next_down p_kids bind].
    assert (Hseg : b_segments inp (S (S (S (S (S f)))))
                     (Pair R_segments (length pre + length (bang neg) + 1)
                           (length pre + length (bang neg ++ (if abs then 36%N else 64%N) :: gsegs_text q))
                           (GenParse.gsegs_pairs sel stext spair (length pre + length (bang neg) + 1) q))
                   = Some (segments_of_list (map gseg_ast q))).
    { replace (length pre + length (bang neg) + 1) with (length (pre ++ bang neg ++ [if abs then 36%N else 64%N])) by leq.
      apply (gb_segments sel stext spair sgood sast sfuel inp b_sel f _ q rest); [rewrite Ei; list_eq|exact Hq|lia]. }
    destruct abs; rules; cbn [next_down p_kids bind]; rewrite Hseg; reflexivity.
  Qed.

  Lemma lmax_le {A} (f : A -> nat) l x : In x l -> f x <= lmax f l.
  Proof.
    induction l as [|y l IH]; intros H; [destruct H|]. cbn [lmax fold_right]. fold (lmax f l).
    destruct H as [->|H]; [lia|]. specialize (IH H). lia.
  Qed.

  Lemma single_or_map {A B} (wrap : list B -> B) (g : A -> B) (l : list A) :
    match map g l with [x] => Some x | _ => Some (wrap (map g l)) end = Some (single_or wrap (map g l)).
  Proof. destruct l as [|x [|y l]]; reflexivity. Qed.

  Lemma b_and c :
    (forall a, In a c -> Batom a /\ agood a) ->
    forall f pre rest, inp = pre ++ and_text c ++ rest -> cfuel c < f ->
      b_logical_expr_and inp f (and_pair (length pre) c) = Some (and_ast c).
  Proof.
    intros Hc f pre rest Ei Hf. destruct f as [|f]; [lia|]. rewrite b_logical_expr_and_step. unfold FilterParse.and_pair. cbn [p_kids].
    unfold FilterParse.and_text in Ei.
    rewrite (mapM_sep atext apair s_and (fun r => bind (b_filter_atom inp f r) (fun a => Some (FAtom a)))
                      (fun a => FAtom (atom_ast a)) (fun a => Batom a /\ agood a /\ afuel a <= f) eq_refl) with (rest := rest).
    - cbn [bind]. unfold and_ast, single_or. destruct c as [|x [|y c]]; reflexivity.
    - intros pre0 x rest0 E0 [HB [Hg Hfx]]. rewrite (HB f pre0 rest0 E0 Hg Hfx). reflexivity.
    - exact Ei.
    - intros x Hx. destruct (Hc x Hx) as [HB Hg]. split; [exact HB|split; [exact Hg|]].
      pose proof (lmax_le afuel c x Hx). unfold cfuel in Hf. lia.
  Qed.

  Lemma b_or e :
    (forall c, In c e -> forall a, In a c -> Batom a /\ agood a) ->
    forall f pre rest, inp = pre ++ or_text e ++ rest -> S (efuel e) < f ->
      b_logical_expr inp f (or_pair (length pre) e) = Some (or_ast e).
  Proof.
    intros He f pre rest Ei Hf. destruct f as [|f]; [lia|]. rewrite b_logical_expr_step. unfold FilterParse.or_pair. cbn [p_kids].
    unfold FilterParse.or_text in Ei.
    rewrite (mapM_sep and_text and_pair s_or (b_logical_expr_and inp f) and_ast
                      (fun c => (forall a, In a c -> Batom a /\ agood a) /\ cfuel c < f) eq_refl) with (rest := rest).
    - cbn [bind]. unfold or_ast, single_or. destruct e as [|x [|y e]]; reflexivity.
    - intros pre0 c rest0 E0 [Hc Hfc]. apply (b_and c Hc f pre0 rest0 E0 Hfc).
    - exact Ei.
    - intros c Hc. split; [apply He; exact Hc|]. pose proof (lmax_le cfuel e c Hc). unfold efuel in Hf. lia.
  Qed.

  Lemma batom_paren neg e :
    (forall c, In c e -> forall a, In a c -> Batom a) -> Batom (XParen _ neg e).
  Proof.
    intros HB f pre rest Ei Hg Hf. destruct (agood_paren_inv neg e Hg) as [Hne He]. cbn [afuel] in Hf.
    destruct f as [|f]; [lia|]. cbn [FilterParse.atext FilterParse.apair atom_ast] in *.
    rewrite b_filter_atom_step. cbn [next_down p_kids bind]. rules. cbn [p_kids].
    rewrite existsb_not by reflexivity.
    fold (or_text e) in Ei.
    change (Pair R_logical_expr (length pre + length (bang neg) + 1)
                 (length pre + length (bang neg) + 1 + length (or_text e))
                 (pairs_sep (fun c => length (and_text c))
                            (fun p c => Pair R_logical_expr_and p (p + length (and_text c))
                                             (pairs_sep (fun a => length (atext a)) apair p c))
                            (length pre + length (bang neg) + 1) e))
      with (or_pair (length pre + length (bang neg) + 1) e).
    rewrite (fold_not_then (is_rule R_logical_expr) (b_logical_expr inp f) neg (length pre)); [|reflexivity|reflexivity].
    replace (length pre + length (bang neg) + 1) with (length (pre ++ bang neg ++ [40%N])) by leq.
    rewrite (b_or e) with (rest := 41%N :: rest).
    - reflexivity.
    - intros c Hc a Ha. split; [apply (HB c Hc a Ha)|]. destruct (He c Hc) as [_ H]. apply H. exact Ha.
    - rewrite Ei. list_eq.
    - fold cfuel in Hf. fold (efuel e) in Hf. lia.
  Qed.

  Theorem batom_all : forall n a, asize sel a <= n -> Batom a.
  Proof.
    induction n as [|n IH]; intros a Hs.
    - destruct a; cbn [asize] in Hs; lia.
    - destruct a as [neg e|neg abs q|o l r].
      + apply batom_paren. intros c Hc a Ha. apply IH. pose proof (asize_in_paren sel neg e c a Hc Ha). lia.
      + apply batom_test.
      + apply batom_cmp.
  Qed.

  (* the filter selector *)
  Definition egood (e : list (list xatom)) : Prop :=
    e <> [] /\ (forall c, In c e -> c <> [] /\ forall a, In a c -> agood a).

  Lemma b_filter_selector f pre e rest :
    inp = pre ++ filter_text sel stext e ++ rest -> egood e -> 2 + efuel e <= f ->
    b_selector inp (S f) (filter_pair sel stext spair (length pre) e) = Some (SelFilter (or_ast e)).
  Proof.
    intros Ei [Hne He] Hf. rewrite b_selector_step. unfold filter_pair. cbn [next_down p_kids bind]. rules.
    cbn [next_down p_kids bind]. unfold filter_text in Ei.
    replace (length pre + 1) with (length (pre ++ [63%N])) by leq.
    rewrite (b_or e) with (rest := rest).
    - reflexivity.
    - intros c Hc a Ha. split; [apply (batom_all (asize sel a) a (le_n _))|]. destruct (He c Hc) as [_ H]. apply H. exact Ha.
    - rewrite Ei. list_eq.
    - lia.
  Qed.
End BE.

(* ---------- the tower on the Build side ---------- *)
Definition BSpec (sel : Type) (stext : sel -> str) (spair : nat -> sel -> pair rname)
           (sgood : sel -> Prop) (sast : sel -> selector) (sfuel : sel -> nat) : Prop :=
  forall inp f pre s rest,
    inp = pre ++ stext s ++ rest -> sgood s -> sfuel s <= f ->
    b_selector inp (S f) (spair (length pre) s) = Some (sast s).

Definition plain_good (s : fsel) : Prop := sel_ok s /\ sel_range s.

Lemma plain_bspec : BSpec fsel sel_text sel_pair plain_good sel_ast (fun _ => 0).
Proof. intros inp f pre s rest Ei [Hs Hr] _. apply (b_selector_frag inp f pre s rest Ei Hs Hr). Qed.

Section BLevel.
  Variable sel : Type.
  Variable stext : sel -> str.
  Variable spair : nat -> sel -> pair rname.
  Variable sgood : sel -> Prop.
  Variable sast : sel -> selector.
  Variable sfuel : sel -> nat.
  Hypothesis HB : BSpec sel stext spair sgood sast sfuel.

  Definition sgood' (s : sel' sel) : Prop :=
    match s with inl p => plain_good p | inr e => egood sel sgood e end.
  Definition sast' (s : sel' sel) : selector :=
    match s with inl p => sel_ast p | inr e => SelFilter (or_ast sel sast e) end.
  Definition sfuel' (s : sel' sel) : nat :=
    match s with inl _ => 0 | inr e => 2 + efuel sel sfuel e end.

  Lemma level_bspec : BSpec (sel' sel) (stext' sel stext) (spair' sel stext spair) sgood' sast' sfuel'.
  Proof.
    intros inp f pre [p|e] rest Ei Hg Hf; cbn [stext' spair' sgood' sast' sfuel'] in *.
    - destruct Hg as [Hs Hr]. apply (b_selector_frag inp f pre p rest Ei Hs Hr).
    - apply (b_filter_selector sel stext spair sgood sast sfuel inp (HB inp) f pre e rest Ei Hg Hf).
  Qed.
End BLevel.

Fixpoint sgoodT (n : nat) : SelT n -> Prop :=
  match n with O => plain_good | S k => sgood' (SelT k) (sgoodT k) end.
Fixpoint sastT (n : nat) : SelT n -> selector :=
  match n with O => sel_ast | S k => sast' (SelT k) (sastT k) end.
Fixpoint sfuelT (n : nat) : SelT n -> nat :=
  match n with O => (fun _ => 0) | S k => sfuel' (SelT k) (sfuelT k) end.

Theorem tower_bspec n : BSpec (SelT n) (stextT n) (spairT n) (sgoodT n) (sastT n) (sfuelT n).
Proof.
  induction n as [|n IH]; [exact plain_bspec|]. cbn [SelT stextT spairT sgoodT sastT sfuelT]. apply level_bspec. exact IH.
Qed.
