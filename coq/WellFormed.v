(* WellFormed.v — the executable domain predicate of the refinement theorems:
   [wf_query q] = RFC 9535 well-typedness of function expressions (section 2.4.3), every
   bracketed selection has at least one selector, and every name selector / string literal is
   spelled without escapes (outside: known class D7).  The parser only builds ASTs that satisfy
   the first two parts, up to the typing holes listed as D20. *)
From Coq Require Import List NArith ZArith Bool.
From JP Require Import Base Ast Known.
Import ListNotations.

Definition singular_seg (s : segment) : bool :=
  match s with
  | SegSel (SelName _) | SegSel (SelIndex _) => true
  | _ => false
  end.
Fixpoint singular (l : segments) : bool :=
  match l with GNil => true | GCons s l' => singular_seg s && singular l' end.

Definition value_fn (f : tfun) : bool :=
  match f with FnLength _ | FnCount _ | FnValue _ => true | _ => false end.
Definition logical_fn (f : tfun) : bool := negb (value_fn f).

Definition is_ext_name (name : str) : bool :=
  str_eqb name [105; 110]%N || str_eqb name [110; 105; 110]%N
  || str_eqb name [110; 111; 110; 101; 95; 111; 102]%N
  || str_eqb name [97; 110; 121; 95; 111; 102]%N
  || str_eqb name [115; 117; 98; 115; 101; 116; 95; 111; 102]%N.

Fixpoint fnargs_len (l : fnargs) : nat :=
  match l with ANil => 0 | ACons _ l' => S (fnargs_len l') end.

Fixpoint ok_segment (s : segment) : bool :=
  match s with
  | SegDesc s' => ok_segment s'
  | SegSel x => ok_selector x
  | SegSels l => match l with SNil => false | _ => ok_selectors l end
  end
with ok_selector (s : selector) : bool :=
  match s with
  | SelName k => name_plain k
  | SelFilter f => ok_filter f
  | _ => true
  end
with ok_selectors (l : selectors) : bool :=
  match l with SNil => true | SCons s l' => ok_selector s && ok_selectors l' end
with ok_segments (l : segments) : bool :=
  match l with GNil => true | GCons s l' => ok_segment s && ok_segments l' end
with ok_filter (f : filter) : bool :=
  match f with
  | FOr l | FAnd l => ok_filters l
  | FAtom a => ok_atom a
  end
with ok_filters (l : filters) : bool :=
  match l with FNil => true | FCons f l' => ok_filter f && ok_filters l' end
with ok_atom (a : atom) : bool :=
  match a with
  | AFilter f _ => ok_filter f
  | ATest t _ => ok_test t
  | ACmp _ l r => ok_comparable l && ok_comparable r
  end
with ok_comparable (c : comparable) : bool :=
  match c with
  | CLit l => lit_plain l
  | CFn f => value_fn f && ok_tfun f
  | CSq q => squery_ok name_plain q
  end
(* a test expression: a query (existence) or a function of LogicalType *)
with ok_test (t : test) : bool :=
  match t with
  | TRel l | TAbs l => ok_segments l
  | TFn f => logical_fn f && ok_tfun f
  end
with ok_tfun (f : tfun) : bool :=
  match f with
  | FnLength a => ok_arg_value a
  | FnCount a | FnValue a => ok_arg_nodes a
  (* the pattern must be a literal: a pattern taken from the document is rewritten by
     prepare_regex's replace of \\\\ (known class D14) *)
  | FnMatch a b | FnSearch a b =>
      ok_arg_value a && match b with ArgLit l => lit_plain l | _ => false end
  | FnCustom name args =>
      (negb (is_ext_name name) || Nat.eqb (fnargs_len args) 2) && ok_args_value args
  end
(* an argument of declared ValueType: literal, singular query, function of ValueType *)
with ok_arg_value (a : fnarg) : bool :=
  match a with
  | ArgLit l => lit_plain l
  | ArgTest t =>
      match t with
      | TRel l | TAbs l => singular l && ok_segments l
      | TFn f => value_fn f && ok_tfun f
      end
  | ArgFilter _ => false
  end
(* an argument of declared NodesType: a query *)
with ok_arg_nodes (a : fnarg) : bool :=
  match a with
  | ArgTest t => match t with TRel l | TAbs l => ok_segments l | TFn _ => false end
  | _ => false
  end
with ok_args_value (l : fnargs) : bool :=
  match l with ANil => true | ACons a l' => ok_arg_value a && ok_args_value l' end.

Definition wf_query (q : query) : bool := ok_segments q.
