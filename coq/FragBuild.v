(* FragBuild.v — parser.rs (Build.v) turns the pair tree of a filter-free query (FragParse.v) into
   its AST; composed: parse_query (36 :: segs_text q) = POk (query_ast q). *)
From Coq Require Import List Arith NArith ZArith Bool Lia.
From JP Require Import Base Ast Peg PegFacts NormPath NormPathFacts Dec2Bin Known Build BuildSteps
  NpParse NpBuild FragParse BaseFacts.
From JP.gen Require Import Grammar.
Import ListNotations.
Local Open Scope nat_scope.

(* ---------- integers ---------- *)
Lemma parse_i64_neg ds v :
  ds <> [] -> digits_val 0 ds = Some v -> (- 2 ^ 63 <= - v <= 2 ^ 63 - 1)%Z ->
  parse_i64 (45%N :: ds) = Some (- v)%Z.
Proof.
  intros Hne Hv Hr. unfold parse_i64. cbv beta iota. destruct ds as [|d r]; [contradiction|].
  rewrite Hv. destruct (Z.leb_spec (- 2 ^ 63) (- v)); [|lia]. destruct (Z.leb_spec (- v) (2 ^ 63 - 1)); [|lia].
  reflexivity.
Qed.

Lemma parse_i64_int_text z : (- 2 ^ 63 <= z <= 2 ^ 63 - 1)%Z -> parse_i64 (int_text z) = Some z.
Proof.
  intros Hr. unfold int_text. destruct (Z.ltb_spec z 0) as [Hneg|Hpos].
  - pose proof (dec_of_N_value (Z.to_N (- z))) as Hv.
    destruct (dec_of_N_spec (Z.to_N (- z))) as [_ [_ Hz]].
    assert (Hne : dec_of_N (Z.to_N (- z)) <> []).
    { destruct (dec_of_N (Z.to_N (- z))); [destruct Hz|discriminate]. }
    rewrite (parse_i64_neg (dec_of_N (Z.to_N (- z))) (Z.of_N (Z.to_N (- z))) Hne Hv); [f_equal; lia|lia].
  - pose proof (dec_of_N_value (Z.to_N z)) as Hv.
    destruct (dec_of_N_spec (Z.to_N z)) as [Hd [_ Hz]].
    destruct (dec_of_N (Z.to_N z)) as [|d r]; [destruct Hz|].
    cbn [forallb] in Hd. apply andb_true_iff in Hd. destruct Hd as [Hd _].
    rewrite (parse_i64_digits d r _ Hd Hv); [f_equal; lia|lia].
Qed.

Lemma int_text_no_uws z c : In c (int_text z) -> is_unicode_ws c = false.
Proof.
  unfold int_text. intros H.
  assert (Hd : forall n c, In c (dec_of_N n) -> is_unicode_ws c = false).
  { intros n c0 Hc. destruct (dec_of_N_spec n) as [Hdig _]. apply digit_not_uws. apply (forallb_In _ _ _ Hdig Hc). }
  destruct (Z.ltb z 0).
  - destruct H as [<-|H]; [reflexivity|]. apply (Hd _ _ H).
  - apply (Hd _ _ H).
Qed.

Lemma get_int_text inp p st en z pre rest :
  p = Pair (p_rule p) st en (p_kids p) ->
  inp = pre ++ int_text z ++ rest -> st = length pre -> en = length pre + length (int_text z) ->
  (- 2 ^ 63 <= z <= 2 ^ 63 - 1)%Z ->
  get_int inp p = Some z.
Proof.
  intros Ep Ei Hst Hen Hr. unfold get_int. rewrite Ep. unfold p_str. rewrite Ei, (p_str_mid pre _ rest st en Hst Hen).
  unfold trim_unicode. rewrite trim_no_ends by apply int_text_no_uws. apply parse_i64_int_text. exact Hr.
Qed.

Lemma get_int_at inp r st z pre rest kids :
  inp = pre ++ int_text z ++ rest -> st = length pre -> (- 2 ^ 63 <= z <= 2 ^ 63 - 1)%Z ->
  get_int inp (Pair r st (st + length (int_text z)) kids) = Some z.
Proof.
  intros Ei Hst Hr. apply (get_int_text inp _ st (st + length (int_text z)) z pre rest); try assumption.
  - reflexivity.
  - rewrite Hst. reflexivity.
Qed.

Definition z_ok (z : Z) : Prop := (MIN_VAL <= z <= MAX_VAL)%Z.
Definition oz_ok (o : option Z) : Prop := match o with Some z => z_ok z | None => True end.

Lemma z_ok_i64 z : z_ok z -> (- 2 ^ 63 <= z <= 2 ^ 63 - 1)%Z.
Proof. unfold z_ok, MIN_VAL, MAX_VAL. lia. Qed.

Lemma validate_range_ok' z : z_ok z -> validate_range z = Some z.
Proof.
  unfold z_ok, validate_range. intros H.
  destruct (Z.ltb_spec MAX_VAL z); [lia|]. destruct (Z.ltb_spec z MIN_VAL); [lia|]. reflexivity.
Qed.

(* ---------- selectors ---------- *)
Definition sel_ast (s : fsel) : selector :=
  match s with
  | FName k => SelName (39%N :: k ++ [39%N])
  | FWild => SelWild
  | FIndex i => SelIndex i
  | FSlice a b c => SelSlice a b c
  end.
Definition sel_range (s : fsel) : Prop :=
  match s with
  | FIndex i => z_ok i
  | FSlice a b c => oz_ok a /\ oz_ok b /\ oz_ok c
  | _ => True
  end.

Ltac rules :=
  unfold is_rule; cbn [p_rule];
  repeat match goal with
         | |- context [rname_eqb ?a ?b] =>
             let v := eval vm_compute in (rname_eqb a b) in change (rname_eqb a b) with v
         end;
  cbv iota.

Ltac list_eq := repeat rewrite <- app_assoc; cbn [app]; repeat rewrite <- app_assoc; reflexivity.
Ltac len_eq := repeat rewrite app_length; cbn [length oint]; lia.

Section B.
  Variable inp : str.

  Lemma b_slice_kids pre a b c rest st en :
    inp = pre ++ sel_text (FSlice a b c) ++ rest ->
    oz_ok a -> oz_ok b -> oz_ok c ->
    b_slice inp (Pair R_slice_selector st en (slice_kids (length pre) a b c)) = Some (a, b, c).
  Proof.
    intros Ei Ha Hb Hc. cbn [sel_text] in Ei.
    set (ctext := match c with Some z => 58%N :: int_text z | None => [] end) in *.
    assert (Hstart : forall za kids, a = Some za ->
              get_int inp (Pair R_start (length pre) (length pre + length (int_text za)) kids) = Some za).
    { intros za kids ->. cbn [oint oz_ok] in *.
      apply (get_int_at inp _ _ za pre (58%N :: oint b ++ ctext ++ rest)); [rewrite Ei; list_eq|reflexivity|apply z_ok_i64; exact Ha]. }
    assert (Hend : forall zb kids, b = Some zb ->
              get_int inp (Pair R_end (length pre + length (oint a) + 1)
                                (length pre + length (oint a) + 1 + length (int_text zb)) kids) = Some zb).
    { intros zb kids ->. cbn [oint oz_ok] in *.
      apply (get_int_at inp _ _ zb (pre ++ oint a ++ [58%N]) (ctext ++ rest)); [rewrite Ei; list_eq|len_eq|apply z_ok_i64; exact Hb]. }
    assert (Hstep : forall zc kids, c = Some zc ->
              get_int inp (Pair R_int (length pre + length (oint a) + 1 + length (oint b) + 1)
                                (length pre + length (oint a) + 1 + length (oint b) + 1 + length (int_text zc)) kids) = Some zc).
    { intros zc kids E. subst c. cbn [oz_ok] in *. subst ctext.
      apply (get_int_at inp _ _ zc (pre ++ oint a ++ [58%N] ++ oint b ++ [58%N]) rest); [rewrite Ei; list_eq|len_eq|apply z_ok_i64; exact Hc]. }
    unfold b_slice, slice_kids, int_pair. cbn [p_kids].
    destruct a as [za|], b as [zb|], c as [zc|]; cbn [oint app fold_left length oz_ok] in *; rules; cbn [p_kids bind];
      rewrite ?(Hstart _ _ eq_refl), ?(Hend _ _ eq_refl), ?(Hstep _ _ eq_refl); cbn [bind];
      rewrite ?validate_range_ok' by assumption; cbn [bind]; rules; cbn [p_kids bind];
      rewrite ?(Hstart _ _ eq_refl), ?(Hend _ _ eq_refl), ?(Hstep _ _ eq_refl); cbn [bind];
      rewrite ?validate_range_ok' by assumption; cbn [bind]; rules; cbn [p_kids bind];
      rewrite ?(Hstart _ _ eq_refl), ?(Hend _ _ eq_refl), ?(Hstep _ _ eq_refl); cbn [bind];
      rewrite ?validate_range_ok' by assumption; cbn [bind]; reflexivity.
  Qed.
End B.

Section B1.
  Variable inp : str.

  Lemma b_selector_frag f pre s rest :
    inp = pre ++ sel_text s ++ rest -> sel_ok s -> sel_range s ->
    b_selector inp (S f) (sel_pair (length pre) s) = Some (sel_ast s).
  Proof.
    intros Ei Hs Hr. destruct s as [k| |i|a b c]; cbn [sel_ok sel_range sel_ast] in *.
    - exact (b_selector_name inp f pre k rest _ _ Ei eq_refl eq_refl Hs).
    - rewrite b_selector_step. unfold sel_pair. cbn [next_down p_kids bind]. rules. reflexivity.
    - rewrite b_selector_step. unfold sel_pair. cbn [next_down p_kids bind sel_text]. rules.
      fold (get_int inp (Pair R_index_selector (length pre) (length pre + length (int_text i))
                              [Pair R_int (length pre) (length pre + length (int_text i)) []])).
      rewrite (get_int_at inp _ _ i pre rest _ Ei eq_refl (z_ok_i64 i Hr)). cbn [bind].
      rewrite (validate_range_ok' i Hr). reflexivity.
    - destruct Hr as [Ha [Hb Hc]]. rewrite b_selector_step. unfold sel_pair. cbn [next_down p_kids bind]. rules.
      rewrite (b_slice_kids inp pre a b c rest _ _ Ei Ha Hb Hc). reflexivity.
  Qed.
End B1.

(* ---------- segments ---------- *)
Definition bracket_ast (s : fsel) (l : list fsel) : segment :=
  match l with
  | [] => SegSel (sel_ast s)
  | _ => SegSels (selectors_of_list (map sel_ast (s :: l)))
  end.
Definition seg_ast (g : fseg) : segment :=
  match g with
  | FBracket s l => bracket_ast s l
  | FShort n => SegSel (SelName n)
  | FDotWild => SegSel SelWild
  | FDescBracket s l => SegDesc (bracket_ast s l)
  | FDescShort n => SegDesc (SegSel (SelName n))
  | FDescWild => SegDesc (SegSel SelWild)
  end.
Definition seg_range (g : fseg) : Prop :=
  match g with
  | FBracket s l | FDescBracket s l => sel_range s /\ Forall sel_range l
  | _ => True
  end.

Section B2.
  Variable inp : str.

  Lemma mapM_sels f l : forall pre rest,
    inp = pre ++ commas_text l ++ rest -> Forall sel_ok l -> Forall sel_range l ->
    mapM (b_selector inp (S f)) (sels_pairs (length pre) l) = Some (map sel_ast l).
  Proof.
    induction l as [|s l IH]; intros pre rest Ei Hok Hr; [reflexivity|].
    pose proof (Forall_inv Hok) as Hs. pose proof (Forall_inv_tail Hok) as Hok'.
    pose proof (Forall_inv Hr) as Hrs. pose proof (Forall_inv_tail Hr) as Hr'.
    unfold commas_text in Ei. cbn [flat_map] in Ei. fold (commas_text l) in Ei.
    cbn [sels_pairs mapM map].
    replace (length pre + 1) with (length (pre ++ [44%N])) by (rewrite app_length; reflexivity).
    rewrite (b_selector_frag inp f (pre ++ [44%N]) s (commas_text l ++ rest)); [|rewrite Ei; list_eq|exact Hs|exact Hrs].
    cbn [bind].
    replace (length (pre ++ [44%N]) + length (sel_text s)) with (length (pre ++ 44%N :: sel_text s))
      by (rewrite !app_length; cbn [length]; lia).
    rewrite (IH (pre ++ 44%N :: sel_text s) rest); [reflexivity| |exact Hok'|exact Hr'].
    rewrite Ei. list_eq.
  Qed.

  Lemma b_bracket f pre s l rest :
    inp = pre ++ bracket_text s l ++ rest ->
    sel_ok s -> Forall sel_ok l -> sel_range s -> Forall sel_range l ->
    b_child_segment inp (S (S f)) (bracket_pair (length pre) s l) = Some (bracket_ast s l).
  Proof.
    intros Ei Hs Hl Hrs Hrl. rewrite b_child_segment_step. unfold bracket_pair. rules. cbn [p_kids mapM].
    unfold bracket_text in Ei.
    replace (length pre + 1) with (length (pre ++ [91%N])) by (rewrite app_length; reflexivity).
    rewrite (b_selector_frag inp f (pre ++ [91%N]) s (commas_text l ++ [93%N] ++ rest)); [|rewrite Ei; list_eq|exact Hs|exact Hrs].
    cbn [bind].
    replace (length (pre ++ [91%N]) + length (sel_text s)) with (length (pre ++ 91%N :: sel_text s))
      by (rewrite !app_length; cbn [length]; lia).
    rewrite (mapM_sels f l (pre ++ 91%N :: sel_text s) ([93%N] ++ rest)); [|rewrite Ei; list_eq|exact Hl|exact Hrl].
    cbn [bind]. unfold bracket_ast. destruct l as [|s2 l]; reflexivity.
  Qed.
End B2.

Lemma name_char_not_blank c : name_char_b c = true -> is_blank c = false.
Proof.
  unfold name_char_b. intros H. apply orb_true_iff in H.
  assert (Hc : (48 <= c)%N).
  { destruct H as [H|H]; [apply name_first_cases in H; lia|apply is_digit_bounds in H; lia]. }
  unfold is_blank.
  destruct (N.eqb_spec c 32); [lia|]. destruct (N.eqb_spec c 9); [lia|].
  destruct (N.eqb_spec c 10); [lia|]. destruct (N.eqb_spec c 13); [lia|]. reflexivity.
Qed.

Lemma name_first_char c : name_first_b c = true -> name_char_b c = true.
Proof. unfold name_char_b. intros ->. reflexivity. Qed.

Lemma name_trim n : name_ok n -> trim_blank n = n /\ trim_start_blank n = n.
Proof.
  destruct n as [|c r]; [intros []|]. intros [Hc Hr]. split.
  - unfold trim_blank. apply trim_no_ends. intros x [<-|Hx].
    + apply name_char_not_blank, name_first_char, Hc.
    + apply name_char_not_blank. apply (forallb_In _ _ _ Hr Hx).
  - unfold trim_start_blank. apply drop_while_head. apply name_char_not_blank, name_first_char, Hc.
Qed.

Section B3.
  Variable inp : str.

  Lemma p_str_at r st en kids pre mid rest :
    inp = pre ++ mid ++ rest -> st = length pre -> en = length pre + length mid ->
    p_str inp (Pair r st en kids) = mid.
  Proof. intros Ei Hst Hen. unfold p_str. rewrite Ei. apply p_str_mid; assumption. Qed.

  Lemma b_segment_frag f pre g rest :
    inp = pre ++ seg_text g ++ rest -> seg_ok g -> seg_range g ->
    bind (next_down (seg_pair (length pre) g)) (b_segment inp (S (S (S (S f))))) = Some (seg_ast g).
  Proof.
    intros Ei Hg Hr.
    destruct g as [s l|n| |s l|n| ]; cbn [seg_ok seg_range seg_text seg_ast] in *;
      unfold seg_pair; cbn [next_down p_kids bind seg_text]; rewrite b_segment_step; rules.
    - destruct Hg as [Hs Hl]. destruct Hr as [Hrs Hrl].
      rewrite (p_str_at _ _ _ _ pre (bracket_text s l) rest Ei eq_refl eq_refl).
      unfold bracket_text at 1. cbv zeta. cbn [negb str_eqb trim_start_blank drop_while next_down p_kids bind].
      apply (b_bracket inp (S f) pre s l rest Ei Hs Hl Hrs Hrl).
    - destruct (name_trim n Hg) as [Ht Hts].
      rewrite (p_str_at _ _ _ _ pre (46%N :: n) rest Ei eq_refl eq_refl). cbv zeta.
      rewrite Hts, str_eqb_refl. cbn [negb next_down p_kids bind]. rewrite b_child_segment_step. rules.
      rewrite (p_str_at _ _ _ _ (pre ++ [46%N]) n rest); [rewrite Ht; reflexivity|rewrite Ei; list_eq|len_eq|len_eq].
    - rewrite (p_str_at _ _ _ _ pre [46%N; 42%N] rest Ei eq_refl eq_refl). cbv zeta.
      cbn [negb str_eqb trim_start_blank drop_while is_blank N.eqb orb andb next_down p_kids bind].
      rewrite b_child_segment_step. rules. reflexivity.
    - destruct Hg as [Hs Hl]. destruct Hr as [Hrs Hrl].
      rewrite (p_str_at _ _ _ _ pre (46%N :: 46%N :: bracket_text s l) rest Ei eq_refl eq_refl).
      unfold bracket_text at 1. cbn [nth_error]. change (is_blank 91) with false. cbv iota.
      cbn [next_down p_kids bind].
      replace (length pre + 2) with (length (pre ++ [46%N; 46%N])) by len_eq.
      rewrite (b_bracket inp (S f) (pre ++ [46%N; 46%N]) s l rest); [reflexivity|rewrite Ei; list_eq|assumption..].
    - destruct (name_trim n Hg) as [Ht Hts]. assert (Hn := Hg). destruct n as [|c r]; [destruct Hg|]. destruct Hg as [Hc _].
      rewrite (p_str_at _ _ _ _ pre (46%N :: 46%N :: c :: r) rest Ei eq_refl eq_refl).
      cbn [nth_error]. rewrite (name_char_not_blank c (name_first_char c Hc)).
      cbn [next_down p_kids bind]. rewrite b_child_segment_step. rules.
      rewrite (p_str_at _ _ _ _ (pre ++ [46%N; 46%N]) (c :: r) rest); [rewrite Ht; reflexivity|rewrite Ei; list_eq|len_eq|len_eq].
    - rewrite (p_str_at _ _ _ _ pre [46%N; 46%N; 42%N] rest Ei eq_refl eq_refl).
      cbn [nth_error]. change (is_blank 42) with false. cbv iota. cbn [next_down p_kids bind].
      rewrite b_child_segment_step. rules. reflexivity.
  Qed.
End B3.

(* ---------- the whole query ---------- *)
Definition query_ast (q : list fseg) : query := segments_of_list (map seg_ast q).

Lemma mapM_segs inp f q : forall pre rest,
  inp = pre ++ segs_text q ++ rest -> Forall seg_ok q -> Forall seg_range q ->
  mapM (fun r => bind (next_down r) (fun k => b_segment inp (S (S (S (S f)))) k)) (segs_pairs (length pre) q)
  = Some (map seg_ast q).
Proof.
  induction q as [|g q IH]; intros pre rest Ei Hok Hr; [reflexivity|].
  pose proof (Forall_inv Hok) as Hg. pose proof (Forall_inv_tail Hok) as Hok'.
  pose proof (Forall_inv Hr) as Hrg. pose proof (Forall_inv_tail Hr) as Hr'.
  cbn [segs_pairs mapM map]. unfold segs_text in Ei. cbn [flat_map] in Ei. fold (segs_text q) in Ei.
  rewrite <- app_assoc in Ei.
  change (bind (next_down (seg_pair (length pre) g)) (fun k => b_segment inp (S (S (S (S f)))) k))
    with (bind (next_down (seg_pair (length pre) g)) (b_segment inp (S (S (S (S f)))))).
  rewrite (b_segment_frag inp f pre g (segs_text q ++ rest) Ei Hg Hrg). cbn [bind].
  replace (length pre + length (seg_text g)) with (length (pre ++ seg_text g)) by (rewrite app_length; reflexivity).
  rewrite (IH (pre ++ seg_text g) rest); [reflexivity| |exact Hok'|exact Hr'].
  rewrite Ei, <- app_assoc. reflexivity.
Qed.

Lemma sel_ast_no_lit P s : fa_selector (fun _ => true) P (sel_ast s) = true.
Proof. destruct s; reflexivity. Qed.

Lemma sels_no_lit P l : fa_selectors (fun _ => true) P (selectors_of_list (map sel_ast l)) = true.
Proof.
  induction l as [|s l IH]; [reflexivity|]. unfold selectors_of_list in *. cbn [map fold_right].
  change (fa_selector (fun _ => true) P (sel_ast s) && fa_selectors (fun _ => true) P (fold_right SCons SNil (map sel_ast l)) = true).
  rewrite sel_ast_no_lit, IH. reflexivity.
Qed.

Lemma bracket_no_lit P s l : fa_segment (fun _ => true) P (bracket_ast s l) = true.
Proof.
  unfold bracket_ast. destruct l as [|s2 l].
  - apply sel_ast_no_lit.
  - apply (sels_no_lit P (s :: s2 :: l)).
Qed.

Lemma seg_ast_no_lit P g : fa_segment (fun _ => true) P (seg_ast g) = true.
Proof. destruct g; cbn [seg_ast]; try reflexivity; apply bracket_no_lit. Qed.

Lemma query_no_lit P q : fa_segments (fun _ => true) P (query_ast q) = true.
Proof.
  unfold query_ast. induction q as [|g q IH]; [reflexivity|]. cbn [map segments_of_list].
  change (fa_segment (fun _ => true) P (seg_ast g) && fa_segments (fun _ => true) P (segments_of_list (map seg_ast q)) = true).
  rewrite seg_ast_no_lit, IH. reflexivity.
Qed.

Lemma seg_text_last g : seg_ok g -> exists m b, seg_text g = m ++ [b] /\ is_blank b = false.
Proof.
  assert (Hname : forall n, name_ok n -> exists m b, n = m ++ [b] /\ is_blank b = false).
  { intros n Hn. destruct n as [|c r]; [destruct Hn|]. destruct Hn as [Hc Hr].
    destruct (exists_last (l := c :: r)) as [m [b E]]; [discriminate|]. exists m, b. split; [exact E|].
    apply name_char_not_blank. assert (Hin : In b (c :: r)) by (rewrite E; apply in_or_app; right; left; reflexivity).
    destruct Hin as [<-|Hin]; [apply name_first_char; exact Hc|apply (forallb_In _ _ _ Hr Hin)]. }
  destruct g as [s l|n| |s l|n| ]; cbn [seg_ok seg_text]; intros Hg.
  - exists (91%N :: sel_text s ++ commas_text l), 93%N. split; [unfold bracket_text; list_eq|reflexivity].
  - destruct (Hname n Hg) as [m [b [E Hb]]]. exists (46%N :: m), b. rewrite E. split; [reflexivity|exact Hb].
  - exists [46%N], 42%N. split; reflexivity.
  - exists (46%N :: 46%N :: 91%N :: sel_text s ++ commas_text l), 93%N. split; [unfold bracket_text; list_eq|reflexivity].
  - destruct (Hname n Hg) as [m [b [E Hb]]]. exists (46%N :: 46%N :: m), b. rewrite E. split; [reflexivity|exact Hb].
  - exists [46%N; 46%N], 42%N. split; reflexivity.
Qed.

Lemma frag_not_trimmed q : Forall seg_ok q -> trim_blank (36%N :: segs_text q) = 36%N :: segs_text q.
Proof.
  intros Hq. unfold trim_blank.
  destruct (exists_last (l := 36%N :: segs_text q)) as [m [b E]]; [discriminate|].
  assert (Hb : is_blank b = false).
  { destruct q as [|g q]; [cbn in E; destruct m as [|? [|? ?]]; inversion E; reflexivity|].
    assert (Hlast : exists m2 b2, segs_text (g :: q) = m2 ++ [b2] /\ is_blank b2 = false).
    { clear E. induction q as [|g2 q IH] in g, Hq |- *.
      - unfold segs_text. cbn [flat_map]. rewrite app_nil_r. apply seg_text_last. apply (Forall_inv Hq).
      - destruct (IH g2 (Forall_inv_tail Hq)) as [m2 [b2 [E2 Hb2]]].
        exists (seg_text g ++ m2), b2. split; [|exact Hb2].
        unfold segs_text in *. cbn [flat_map] in *. rewrite E2. list_eq. }
    destruct Hlast as [m2 [b2 [E2 Hb2]]]. rewrite E2 in E.
    change (36%N :: m2 ++ [b2]) with ((36%N :: m2) ++ [b2]) in E. apply app_inj_tail in E. destruct E as [_ <-]. exact Hb2. }
  destruct m as [|a m].
  - cbn [app] in E. rewrite E. apply trim_single. exact Hb.
  - cbn [app] in E. inversion E as [[Ea Es]]. rewrite Es. apply trim_ends; [reflexivity|exact Hb].
Qed.

(* C06 for the filter-free sublanguage: generated grammar + parser.rs read the canonical text of every
   such query as its AST *)
Theorem parse_frag q :
  Forall seg_ok q -> Forall seg_range q -> parse_query (36%N :: segs_text q) = POk (query_ast q).
Proof.
  intros Hok Hr. set (inp := 36%N :: segs_text q).
  pose proof (frag_not_trimmed q Hok) as Ht. fold inp in Ht.
  unfold parse_query, parse_model. rewrite Ht, str_eqb_refl. cbn [negb]. unfold parse_rule.
  assert (Hfuel : 200 + length (segs_text q) <= parse_fuel inp).
  { unfold parse_fuel, inp. cbn [length]. lia. }
  pose proof (main_segs q Hok (parse_fuel inp) Hfuel) as Hrun. fold inp in Hrun. rewrite Hrun.
  unfold query_pairs. cbn [next_down p_kids]. unfold b_jp_query. cbn [next_down p_kids bind].
  assert (E5 : exists f, parse_fuel inp = S (S (S (S (S f))))).
  { exists (995 + 400 * length inp). unfold parse_fuel. lia. }
  destruct E5 as [f E5]. rewrite E5. rewrite b_segments_step. cbn [p_kids].
  change 1 with (length [36%N]).
  rewrite (mapM_segs inp f q [36%N] []); [|unfold inp; rewrite app_nil_r; reflexivity|exact Hok|exact Hr].
  cbn [bind]. fold (query_ast q). rewrite query_no_lit. reflexivity.
Qed.
