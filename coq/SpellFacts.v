(* SpellFacts.v — equivalent spellings denote the same thing in the RFC semantics (C13). *)
From Coq Require Import List NArith ZArith Bool Lia.
From JP Require Import Base Ast Eval ValueModel Spec Known BaseFacts SelFacts SpecSteps.
Import ListNotations.
Open Scope Z_scope.

(* ---------- names ---------- *)
Lemma decode_quoted q k :
  (q = 39%N \/ q = 34%N) ->
  no_bslash k = true -> no_ctl k = true -> forallb (fun x => negb (N.eqb x q)) k = true ->
  decode_name (q :: k ++ [q]) = Some k.
Proof.
  intros Hq Hb Hc Hk. cbn [decode_name].
  assert (Hor : N.eqb q 39 || N.eqb q 34 = true) by (destruct Hq; subst; reflexivity).
  rewrite Hor, rev_app_distr. cbn [rev app]. rewrite N.eqb_refl, rev_involutive.
  unfold decode_body. apply decode_esc_plain; [lia|assumption..].
Qed.

Lemma decode_shorthand k :
  match k with c :: _ => negb (N.eqb c 39) && negb (N.eqb c 34) | [] => true end = true ->
  decode_name k = Some k.
Proof.
  destruct k as [|c k]; [reflexivity|]. intros H. apply andb_true_iff in H. destruct H as [H1 H2].
  apply negb_true_iff in H1. apply negb_true_iff in H2. cbn [decode_name]. rewrite H1, H2. reflexivity.
Qed.

(* .name, ['name'] and ["name"] select the same member *)
Theorem name_spellings_agree k n :
  no_bslash k = true -> no_ctl k = true ->
  forallb (fun x => negb (N.eqb x 39)) k = true -> forallb (fun x => negb (N.eqb x 34)) k = true ->
  sel_name (39%N :: k ++ [39%N]) n = sel_name (34%N :: k ++ [34%N]) n
  /\ (k <> [] -> sel_name k n = sel_name (39%N :: k ++ [39%N]) n).
Proof.
  intros Hb Hc H39 H34. unfold sel_name.
  rewrite (decode_quoted 39 k (or_introl eq_refl) Hb Hc H39).
  rewrite (decode_quoted 34 k (or_intror eq_refl) Hb Hc H34).
  split; [reflexivity|]. intros Hne. rewrite decode_shorthand; [reflexivity|].
  destruct k as [|c k]; [contradiction|]. cbn [forallb] in H39, H34.
  apply andb_true_iff in H39. apply andb_true_iff in H34. destruct H39 as [-> _]. destruct H34 as [-> _]. reflexivity.
Qed.

(* ---------- a single selector in brackets ---------- *)
Theorem bracket_single_selector rx_full rx_sub veq root s ns :
  r_segment rx_full rx_sub veq false root (SegSels (SCons s SNil)) ns
  = r_segment rx_full rx_sub veq false root (SegSel s) ns.
Proof.
  autorewrite with rsteps. apply flat_map_ext'. intros n _. autorewrite with rsteps. apply app_nil_r.
Qed.

(* ---------- numbers: integer and float spellings of one number compare alike ---------- *)
Definition sc (a : dy) (E : Z) : Z := fst a * 2 ^ (snd a - E).

Lemma sc_align a b E :
  E <= snd a -> E <= snd b ->
  let '(x, y) := dy_align a b in
  sc a E = x * 2 ^ (Z.min (snd a) (snd b) - E) /\ sc b E = y * 2 ^ (Z.min (snd a) (snd b) - E).
Proof.
  destruct a as [m1 e1], b as [m2 e2]. cbn [fst snd]. intros H1 H2. unfold dy_align, sc. cbn [fst snd].
  set (m := Z.min e1 e2). split.
  - rewrite <- Z.mul_assoc, <- Z.pow_add_r by lia. f_equal. f_equal. lia.
  - rewrite <- Z.mul_assoc, <- Z.pow_add_r by lia. f_equal. f_equal. lia.
Qed.

Lemma dy_eqb_sc a b E : E <= snd a -> E <= snd b -> dy_eqb a b = Z.eqb (sc a E) (sc b E).
Proof.
  intros H1 H2. pose proof (sc_align a b E H1 H2) as H. unfold dy_eqb.
  destruct (dy_align a b) as [x y]. destruct H as [-> ->].
  assert (Hp : 0 < 2 ^ (Z.min (snd a) (snd b) - E)) by (apply Z.pow_pos_nonneg; lia).
  destruct (Z.eqb_spec x y) as [->|Hne].
  - symmetry. apply Z.eqb_refl.
  - symmetry. apply Z.eqb_neq. intros Heq. apply Hne. apply Z.mul_cancel_r in Heq; [exact Heq|lia].
Qed.
Lemma dy_ltb_sc a b E : E <= snd a -> E <= snd b -> dy_ltb a b = Z.ltb (sc a E) (sc b E).
Proof.
  intros H1 H2. pose proof (sc_align a b E H1 H2) as H. unfold dy_ltb.
  destruct (dy_align a b) as [x y]. destruct H as [-> ->].
  assert (Hp : 0 < 2 ^ (Z.min (snd a) (snd b) - E)) by (apply Z.pow_pos_nonneg; lia).
  destruct (Z.ltb_spec x y) as [Hlt|Hge]; symmetry.
  - apply Z.ltb_lt. apply Z.mul_lt_mono_pos_r; assumption.
  - apply Z.ltb_ge. apply Z.mul_le_mono_pos_r; assumption.
Qed.

(* two dyadics with the same value are indistinguishable by the comparisons *)
Theorem dy_value_congruence a b c :
  dy_eqb a b = true ->
  dy_eqb a c = dy_eqb b c /\ dy_ltb a c = dy_ltb b c /\ dy_ltb c a = dy_ltb c b.
Proof.
  intros Hab. set (E := Z.min (snd a) (Z.min (snd b) (snd c))).
  assert (Ha : E <= snd a) by (subst E; lia). assert (Hb : E <= snd b) by (subst E; lia).
  assert (Hc : E <= snd c) by (subst E; lia).
  rewrite (dy_eqb_sc a b E Ha Hb) in Hab. apply Z.eqb_eq in Hab.
  rewrite (dy_eqb_sc a c E Ha Hc), (dy_eqb_sc b c E Hb Hc), (dy_ltb_sc a c E Ha Hc), (dy_ltb_sc b c E Hb Hc),
    (dy_ltb_sc c a E Hc Ha), (dy_ltb_sc c b E Hc Hb), Hab. repeat split.
Qed.

(* 100, 1e2 and 100.0: number literals with the same value compare alike against every operand *)
Theorem number_spellings_compare_alike n1 n2 op (v : vtype) :
  dy_eqb (num_f64 n1) (num_f64 n2) = true ->
  rfc_compare op (Some (JNum n1)) v = rfc_compare op (Some (JNum n2)) v
  /\ rfc_compare op v (Some (JNum n1)) = rfc_compare op v (Some (JNum n2)).
Proof.
  intros H.
  assert (E1 : forall x, rfc_eq (Some (JNum n1)) x = rfc_eq (Some (JNum n2)) x).
  { intros [[| | m | | |]|]; try reflexivity. cbn [rfc_eq rfc_json_eq].
    apply (dy_value_congruence _ _ (num_f64 m) H). }
  assert (E2 : forall x, rfc_eq x (Some (JNum n1)) = rfc_eq x (Some (JNum n2))).
  { intros [[| | m | | |]|]; try reflexivity. cbn [rfc_eq rfc_json_eq].
    destruct (dy_value_congruence _ _ (num_f64 m) H) as [Ha _].
    unfold dy_eqb, dy_align in *. destruct (num_f64 m), (num_f64 n1), (num_f64 n2).
    rewrite (Z.min_comm z0 z2), (Z.min_comm z0 z4), (Z.eqb_sym (z * _)), (Z.eqb_sym (z * _) (z3 * _)). exact Ha. }
  assert (L1 : forall x, rfc_lt (Some (JNum n1)) x = rfc_lt (Some (JNum n2)) x).
  { intros [[| | m | | |]|]; try reflexivity. cbn [rfc_lt]. apply (dy_value_congruence _ _ (num_f64 m) H). }
  assert (L2 : forall x, rfc_lt x (Some (JNum n1)) = rfc_lt x (Some (JNum n2))).
  { intros [[| | m | | |]|]; try reflexivity. cbn [rfc_lt]. apply (dy_value_congruence _ _ (num_f64 m) H). }
  destruct op; cbn [rfc_compare]; rewrite ?E1, ?E2, ?L1, ?L2; split; reflexivity.
Qed.
