(* Peg.v — a model of the matcher that pest 2.9 generates from a grammar (read from
   pest_generator-2.9.1/src/generator.rs and pest-2.9.1/src/parser_state.rs):
   - [a ~ b] = sequence(a; skip; b), [skip] = WHITESPACE* iff the current atomicity is NonAtomic;
   - [e*] = sequence(optional(e; repeat(sequence(skip; e)))), [e+] and [e{n}] unrolled by the
     translator as pest's optimiser does;
   - rule kinds: normal {} inherits atomicity, _{} silent (no pair), @{} atomic (no implicit skip,
     inner rules produce no pairs), ${} compound-atomic (no implicit skip, inner pairs kept),
     !{} non-atomic; a rule produces a pair iff the atomicity on entry is not Atomic;
   - failure restores position and token queue (here: functional state).
   One structural recursion on fuel; every constructor has an equation lemma (PegFacts). *)
From Coq Require Import List NArith Bool.
From JP Require Import Base.
Import ListNotations.

Inductive rkind := KNormal | KSilent | KAtomic | KCompound | KNonAtomic.
Inductive atomicity := ANonAtomic | AAtomic | ACompound.

Section Peg.
  Variable rname : Type.

  Inductive expr :=
  | EStr (s : str)
  | ERange (lo hi : N)
  | ECall (r : rname)
  | ESeq (a b : expr)
  | EAlt (a b : expr)
  | EOpt (e : expr)
  | ERep (e : expr)
  | ERepTail (e : expr)       (* internal: the repeat(sequence(skip; e)) part of e* *)
  | ENot (e : expr)           (* !e : negative lookahead, consumes nothing, produces no pair *)
  | EAnd (e : expr)           (* &e : positive lookahead *)
  | ESkip                     (* internal: the implicit skip *)
  | ESoi
  | EEoi.

  Record peg := { g_rule : rname -> rkind * expr; g_ws : rname; g_eoi : rname }.

  (* pest's Pair: rule, span [start, end) in characters, inner pairs *)
  Inductive pair := Pair (r : rname) (st en : nat) (kids : list pair).

  Inductive res :=
  | Fail
  | OutOfFuel
  | Ok (rest : str) (pos : nat) (toks : list pair).

  Variable g : peg.

  Fixpoint match_str (lit s : str) : option str :=
    match lit, s with
    | [], _ => Some s
    | c :: lit', d :: s' => if N.eqb c d then match_str lit' s' else None
    | _ :: _, [] => None
    end.

  Definition emits (a : atomicity) : bool := match a with AAtomic => false | _ => true end.

  Fixpoint run (fuel : nat) (e : expr) (a : atomicity) (s : str) (pos : nat) : res :=
    match fuel with
    | O => OutOfFuel
    | S f =>
      match e with
      | EStr lit =>
          match match_str lit s with
          | Some rest => Ok rest (pos + length lit) []
          | None => Fail
          end
      | ERange lo hi =>
          match s with
          | c :: rest => if N.leb lo c && N.leb c hi then Ok rest (S pos) [] else Fail
          | [] => Fail
          end
      | ESoi => if Nat.eqb pos 0 then Ok s pos [] else Fail
      | EEoi =>
          match s with
          | [] => Ok s pos (if emits a then [Pair (g_eoi g) pos pos []] else [])
          | _ => Fail
          end
      | ESkip =>
          match a with
          | ANonAtomic =>
              (* state.repeat(WHITESPACE): WHITESPACE itself runs atomically and is silent *)
              match run f (ERep (ECall (g_ws g))) AAtomic s pos with
              | Ok rest p _ => Ok rest p []
              | r => r
              end
          | _ => Ok s pos []
          end
      | ECall r =>
          let '(k, body) := g_rule g r in
          match k with
          | KSilent => run f body a s pos
          | KNormal =>
              match run f body a s pos with
              | Ok rest p toks => Ok rest p (if emits a then [Pair r pos p toks] else [])
              | x => x
              end
          | KAtomic =>
              match run f body AAtomic s pos with
              | Ok rest p _ => Ok rest p (if emits a then [Pair r pos p []] else [])
              | x => x
              end
          | KCompound =>
              match run f body ACompound s pos with
              | Ok rest p toks => Ok rest p (if emits a then [Pair r pos p toks] else [])
              | x => x
              end
          | KNonAtomic =>
              match run f body ANonAtomic s pos with
              | Ok rest p toks => Ok rest p (if emits a then [Pair r pos p toks] else [])
              | x => x
              end
          end
      | ESeq x y =>
          match run f x a s pos with
          | Ok s1 p1 t1 =>
              match run f ESkip a s1 p1 with
              | Ok s2 p2 _ =>
                  match run f y a s2 p2 with
                  | Ok s3 p3 t3 => Ok s3 p3 (t1 ++ t3)
                  | r => r
                  end
              | r => r
              end
          | r => r
          end
      | EAlt x y =>
          match run f x a s pos with
          | Fail => run f y a s pos
          | r => r
          end
      | EOpt x =>
          match run f x a s pos with
          | Fail => Ok s pos []
          | r => r
          end
      | ENot x =>
          match run f x a s pos with
          | Fail => Ok s pos []
          | OutOfFuel => OutOfFuel
          | Ok _ _ _ => Fail
          end
      | EAnd x =>
          match run f x a s pos with
          | Ok _ _ _ => Ok s pos []
          | r => r
          end
      | ERep x =>
          match run f x a s pos with
          | Fail => Ok s pos []
          | OutOfFuel => OutOfFuel
          | Ok s1 p1 t1 =>
              match run f (ERepTail x) a s1 p1 with
              | Ok s2 p2 t2 => Ok s2 p2 (t1 ++ t2)
              | r => r
              end
          end
      | ERepTail x =>
          match run f ESkip a s pos with
          | Ok s1 p1 _ =>
              match run f x a s1 p1 with
              | Fail => Ok s pos []               (* the sequence(skip; e) is rolled back *)
              | OutOfFuel => OutOfFuel
              | Ok s2 p2 t2 =>
                  if Nat.eqb p2 pos then Ok s pos []    (* no progress: pest rejects such grammars *)
                  else
                    match run f (ERepTail x) a s2 p2 with
                    | Ok s3 p3 t3 => Ok s3 p3 (t2 ++ t3)
                    | r => r
                    end
              end
          | r => r
          end
      end
    end.

  (* Parser::parse(rule, input): the pairs the rule produces from position 0 *)
  Definition parse_rule (fuel : nat) (r : rname) (input : str) : res :=
    run fuel (ECall r) ANonAtomic input 0.
End Peg.

Arguments EStr {rname}. Arguments ERange {rname}. Arguments ECall {rname}. Arguments ESeq {rname}.
Arguments EAlt {rname}. Arguments EOpt {rname}. Arguments ERep {rname}. Arguments ERepTail {rname}.
Arguments ENot {rname}. Arguments EAnd {rname}. Arguments ESkip {rname}. Arguments ESoi {rname}. Arguments EEoi {rname}.
Arguments Pair {rname}. Arguments Fail {rname}. Arguments OutOfFuel {rname}. Arguments Ok {rname}.
Arguments run {rname}. Arguments parse_rule {rname}. Arguments g_rule {rname}. Arguments g_ws {rname}.
Arguments g_eoi {rname}. Arguments Build_peg {rname}.
