(* SpecSteps.v — one-step equations of the RFC semantics (Spec.v), for any parameters.
   Generated list; every proof is [reflexivity]. *)
From Coq Require Import List NArith ZArith Bool.
From JP Require Import Base Ast Spec.
Import ListNotations.

Section Steps.
  Variable rx_full rx_sub : str -> str -> bool.
  Variable veq : json -> json -> bool.
  Variable b : bool.
  Variable root : json.

  Notation Rsegment := (r_segment rx_full rx_sub veq b root).
  Notation Rselector := (r_selector rx_full rx_sub veq b root).
  Notation Rselectors := (r_selectors rx_full rx_sub veq b root).
  Notation Rselectors_major := (r_selectors_major rx_full rx_sub veq b root).
  Notation Rsegments := (r_segments rx_full rx_sub veq b root).
  Notation Rholds := (r_holds rx_full rx_sub veq b root).
  Notation Rany := (r_any rx_full rx_sub veq b root).
  Notation Rall := (r_all rx_full rx_sub veq b root).
  Notation Ratom := (r_atom rx_full rx_sub veq b root).
  Notation Rcomparable := (r_comparable rx_full rx_sub veq b root).
  Notation Rtest := (r_test rx_full rx_sub veq b root).
  Notation Rtfun := (r_tfun rx_full rx_sub veq b root).
  Notation Rfnarg := (r_fnarg rx_full rx_sub veq b root).
  Notation Rfnargs := (r_fnargs rx_full rx_sub veq b root).
  Lemma rstep_0 s ns : Rsegment (SegDesc s) ns = Rsegment s (flat_map (fun n => descendants_or_self (fst n) (snd n)) ns).
  Proof. reflexivity. Qed.
  Lemma rstep_1 x ns : Rsegment (SegSel x) ns = flat_map (Rselector x) ns.
  Proof. reflexivity. Qed.
  Lemma rstep_2 l ns : Rsegment (SegSels l) ns = (if b then Rselectors_major l ns else flat_map (Rselectors l) ns).
  Proof. reflexivity. Qed.
  Lemma rstep_3 k n : Rselector (SelName k) n = sel_name k n.
  Proof. reflexivity. Qed.
  Lemma rstep_4 n : Rselector SelWild n = children n.
  Proof. reflexivity. Qed.
  Lemma rstep_5 i n : Rselector (SelIndex i) n = sel_index i n.
  Proof. reflexivity. Qed.
  Lemma rstep_6 a0 b0 c n : Rselector (SelSlice a0 b0 c) n = sel_slice a0 b0 c n.
  Proof. reflexivity. Qed.
  Lemma rstep_7 f n : Rselector (SelFilter f) n = List.filter (fun c => Rholds f (snd c)) (children n).
  Proof. reflexivity. Qed.
  Lemma rstep_8 n : Rselectors SNil n = [].
  Proof. reflexivity. Qed.
  Lemma rstep_9 s l n : Rselectors (SCons s l) n = Rselector s n ++ Rselectors l n.
  Proof. reflexivity. Qed.
  Lemma rstep_10 ns : Rselectors_major SNil ns = [].
  Proof. reflexivity. Qed.
  Lemma rstep_11 s l ns : Rselectors_major (SCons s l) ns = flat_map (Rselector s) ns ++ Rselectors_major l ns.
  Proof. reflexivity. Qed.
  Lemma rstep_12 ns : Rsegments GNil ns = ns.
  Proof. reflexivity. Qed.
  Lemma rstep_13 s l ns : Rsegments (GCons s l) ns = Rsegments l (Rsegment s ns).
  Proof. reflexivity. Qed.
  Lemma rstep_14 l v : Rholds (FOr l) v = Rany l v.
  Proof. reflexivity. Qed.
  Lemma rstep_15 l v : Rholds (FAnd l) v = Rall l v.
  Proof. reflexivity. Qed.
  Lemma rstep_16 a v : Rholds (FAtom a) v = Ratom a v.
  Proof. reflexivity. Qed.
  Lemma rstep_17 v : Rany FNil v = false.
  Proof. reflexivity. Qed.
  Lemma rstep_18 f l v : Rany (FCons f l) v = Rholds f v || Rany l v.
  Proof. reflexivity. Qed.
  Lemma rstep_19 v : Rall FNil v = true.
  Proof. reflexivity. Qed.
  Lemma rstep_20 f l v : Rall (FCons f l) v = Rholds f v && Rall l v.
  Proof. reflexivity. Qed.
  Lemma rstep_21 f neg v : Ratom (AFilter f neg) v = xorb neg (Rholds f v).
  Proof. reflexivity. Qed.
  Lemma rstep_22 t neg v : Ratom (ATest t neg) v = xorb neg (as_logical (Rtest t v)).
  Proof. reflexivity. Qed.
  Lemma rstep_23 op l r v : Ratom (ACmp op l r) v = rfc_compare op (Rcomparable l v) (Rcomparable r v).
  Proof. reflexivity. Qed.
  Lemma rstep_24 l v : Rcomparable (CLit l) v = lit_denot l.
  Proof. reflexivity. Qed.
  Lemma rstep_25 f v : Rcomparable (CFn f) v = as_value (Rtfun f v).
  Proof. reflexivity. Qed.
  Lemma rstep_26 q v : Rcomparable (CSq q) v = as_value (RNodes (r_squery root q v)).
  Proof. reflexivity. Qed.
  Lemma rstep_27 l v : Rtest (TRel l) v = RNodes (Rsegments l [([], v)]).
  Proof. reflexivity. Qed.
  Lemma rstep_28 l v : Rtest (TAbs l) v = RNodes (Rsegments l [([], root)]).
  Proof. reflexivity. Qed.
  Lemma rstep_29 f v : Rtest (TFn f) v = Rtfun f v.
  Proof. reflexivity. Qed.
  Lemma rstep_30 a v : Rtfun (FnLength a) v = RValue (rfc_length (as_value (Rfnarg a v))).
  Proof. reflexivity. Qed.
  Lemma rstep_31 a v : Rtfun (FnCount a) v = RValue (rfc_count (as_nodes (Rfnarg a v))).
  Proof. reflexivity. Qed.
  Lemma rstep_32 a v : Rtfun (FnValue a) v = RValue (rfc_value (as_nodes (Rfnarg a v))).
  Proof. reflexivity. Qed.
  Lemma rstep_33 name args v : Rtfun (FnCustom name args) v = RLogical (ext_fn veq name (Rfnargs args v)).
  Proof. reflexivity. Qed.
  Lemma rstep_34 a0 b0 v : Rtfun (FnMatch a0 b0) v = RLogical (match as_value (Rfnarg a0 v), as_value (Rfnarg b0 v) with Some (JStr s), Some (JStr p) => rx_full p s | _, _ => false end).
  Proof. reflexivity. Qed.
  Lemma rstep_35 a0 b0 v : Rtfun (FnSearch a0 b0) v = RLogical (match as_value (Rfnarg a0 v), as_value (Rfnarg b0 v) with Some (JStr s), Some (JStr p) => rx_sub p s | _, _ => false end).
  Proof. reflexivity. Qed.
  Lemma rstep_36 l v : Rfnarg (ArgLit l) v = RValue (lit_denot l).
  Proof. reflexivity. Qed.
  Lemma rstep_37 t v : Rfnarg (ArgTest t) v = Rtest t v.
  Proof. reflexivity. Qed.
  Lemma rstep_38 f v : Rfnarg (ArgFilter f) v = RLogical (Rholds f v).
  Proof. reflexivity. Qed.
  Lemma rstep_39 v : Rfnargs ANil v = [].
  Proof. reflexivity. Qed.
  Lemma rstep_40 a l v : Rfnargs (ACons a l) v = as_value (Rfnarg a v) :: Rfnargs l v.
  Proof. reflexivity. Qed.
End Steps.

Global Hint Rewrite rstep_0 rstep_1 rstep_2 rstep_3 rstep_4 rstep_5 rstep_6 rstep_7 rstep_8 rstep_9 rstep_10 rstep_11 rstep_12 rstep_13 rstep_14 rstep_15 rstep_16 rstep_17 rstep_18 rstep_19 rstep_20 rstep_21 rstep_22 rstep_23 rstep_24 rstep_25 rstep_26 rstep_27 rstep_28 rstep_29 rstep_30 rstep_31 rstep_32 rstep_33 rstep_34 rstep_35 rstep_36 rstep_37 rstep_38 rstep_39 rstep_40 : rsteps.
