(* TokenStr.v — every string token of every input is a quote, a body, and the SAME quote again (what parser.rs relies on when it
   strips the first and the last character), the body free of characters below U+0020. *)
From Coq Require Import List Arith NArith Bool Lia.
From JP Require Import Base Ast Peg PegFacts Dec2Bin Build PegTerm TermCheck PegAlpha PegTree TokenFacts TokenMore.
From JP.gen Require Import Grammar.
Import ListNotations.
Local Open Scope nat_scope.

Definition quoted_shape (u : str) : Prop :=
  exists q body, u = q :: body ++ [q] /\ (q = 34%N \/ q = 39%N) /\ forallb ge32 body = true.

Lemma quoted_branch (q : N) (r : rname) f s' st rest' en t :
  chk rname grammar ge32 rng32 80 (ERep (ECall r)) = true ->
  run grammar f (ESeq (ESeq (EStr [q]) (ERep (ECall r))) (EStr [q])) AAtomic s' st = Ok rest' en t ->
  exists body, s' = (q :: body ++ [q]) ++ rest' /\ forallb ge32 body = true.
Proof.
  intros Hc Hr. assert (Hat : AAtomic <> ANonAtomic) by discriminate.
  destruct (inv_seq_atomic rname grammar _ _ _ _ _ _ _ _ _ Hat Hr) as [f2 [s2 [p2 [ta [tb [H2 H3]]]]]].
  destruct (inv_seq_atomic rname grammar _ _ _ _ _ _ _ _ _ Hat H2) as [f3 [s1 [p1 [tc [td [H4 H5]]]]]].
  destruct (inv_str rname grammar _ _ _ _ _ _ _ _ H4) as [E4 _]. destruct (inv_str rname grammar _ _ _ _ _ _ _ _ H3) as [E3 _].
  destruct (run_alpha_atomic rname grammar ge32 rng32 rng32_ok f3 80 (ERep (ECall r)) AAtomic s1 p1 s2 p2 td Hat Hc H5) as [body [Eb Hb]].
  exists body. split; [subst s' s1 s2; cbn [app]; rewrite <- app_assoc; reflexivity|exact Hb].
Qed.

Lemma string_run_quoted f a s' st rest' en t :
  run grammar f (ECall R_string) a s' st = Ok rest' en t -> exists u, s' = u ++ rest' /\ quoted_shape u.
Proof.
  intros Hr. destruct (inv_call rname grammar _ _ _ _ _ _ _ _ Hr) as [f1 [t1 H1]].
  change (snd (g_rule grammar R_string))
    with (EAlt (ESeq (ESeq (EStr [34]%N) (ERep (ECall R_double_quoted))) (EStr [34]%N))
               (ESeq (ESeq (EStr [39]%N) (ERep (ECall R_single_quoted))) (EStr [39]%N))) in H1.
  change (call_atomicity (fst (g_rule grammar R_string)) a) with AAtomic in H1.
  destruct (inv_alt rname grammar _ _ _ _ _ _ _ _ _ H1) as [f2 [H2|H2]].
  - destruct (quoted_branch 34 R_double_quoted _ _ _ _ _ _ ltac:(vm_compute; reflexivity) H2) as [body [E Hb]].
    exists (34%N :: body ++ [34%N]). split; [exact E|]. exists 34%N, body. repeat split; [left; reflexivity|exact Hb].
  - destruct (quoted_branch 39 R_single_quoted _ _ _ _ _ _ ltac:(vm_compute; reflexivity) H2) as [body [E Hb]].
    exists (39%N :: body ++ [39%N]). split; [exact E|]. exists 39%N, body. repeat split; [right; reflexivity|exact Hb].
Qed.

Theorem string_token_quoted s st en kids :
  inforest rname (Pair R_string st en kids) (parse_tokens s) -> quoted_shape (slice s st en).
Proof.
  apply (token_text s R_string st en kids quoted_shape); [discriminate|].
  intros f a s' rest' t Hr. exact (string_run_quoted _ _ _ _ _ _ _ Hr).
Qed.
Print Assumptions string_token_quoted.
