(* FilterFacts.v — the side conditions of the round trip for the tower of FilterParse/FilterBuild: the ASTs
   contain no float literal (so parse_json_path's overflow check passes), the depth the PEG derivation needs
   and the fuel the walk of parser.rs needs are within what parse_query supplies. *)
From Coq Require Import List Arith NArith ZArith Bool Lia.
From JP Require Import Base Ast Peg PegFacts NormPath NormPathFacts Dec2Bin Known Build BuildSteps
  NpParse NpBuild FragParse FragBuild GenParse GenBuild FilterParse FilterBuild BaseFacts.
From JP.gen Require Import Grammar.
Import ListNotations.
Local Open Scope nat_scope.

Definition T_ : str -> bool := fun _ => true.
Definition P_ : literal -> bool := fun l => negb (has_inf_lit l).

(* ---------- no float literals ---------- *)
Lemma fa_filters_list l : fa_filters T_ P_ (filters_of_list l) = forallb (fa_filter T_ P_) l.
Proof. induction l as [|x l IH]; [reflexivity|]. unfold filters_of_list in *. cbn [fold_right forallb]. rewrite <- IH. reflexivity. Qed.
Lemma fa_selectors_list l : fa_selectors T_ P_ (selectors_of_list l) = forallb (fa_selector T_ P_) l.
Proof. induction l as [|x l IH]; [reflexivity|]. unfold selectors_of_list in *. cbn [fold_right forallb]. rewrite <- IH. reflexivity. Qed.
Lemma fa_segments_list l : fa_segments T_ P_ (segments_of_list l) = forallb (fa_segment T_ P_) l.
Proof. induction l as [|x l IH]; [reflexivity|]. cbn [segments_of_list forallb]. rewrite <- IH. reflexivity. Qed.

Lemma cmp_ast_nolit c : fa_comparable T_ P_ (cmp_ast c) = true.
Proof.
  destruct c as [[z|k|b| ]|abs l]; cbn [cmp_ast lit_ast]; try reflexivity.
  unfold xsq_ast. destruct abs; cbn; apply forallb_forall; intros x Hx; destruct x; reflexivity.
Qed.

Section NoLit.
  Variable sel : Type.
  Variable sast : sel -> selector.
  Variable sgood : sel -> Prop.
  Variable patok : fnarg -> Prop.
  Hypothesis Hs : forall s, sgood s -> fa_selector T_ P_ (sast s) = true.

  Lemma gbracket_nolit s l : sgood s -> Forall sgood l -> fa_segment T_ P_ (gbracket_ast sel sast s l) = true.
  Proof.
    intros H1 Hl. unfold gbracket_ast. destruct l as [|s2 l]; [apply Hs; exact H1|].
    change (fa_selectors T_ P_ (selectors_of_list (map sast (s :: s2 :: l))) = true).
    rewrite fa_selectors_list. apply forallb_forall. intros x Hx. apply in_map_iff in Hx. destruct Hx as [y [<- Hy]].
    apply Hs. destruct Hy as [<-|Hy]; [exact H1|]. rewrite Forall_forall in Hl. apply Hl. exact Hy.
  Qed.

  Lemma gseg_nolit g : gseg_good sel sgood g -> fa_segment T_ P_ (gseg_ast sel sast g) = true.
  Proof.
    destruct g as [s l|n| |s l|n| ]; cbn [gseg_good gseg_ast]; intros H; try reflexivity.
    - destruct H. apply gbracket_nolit; assumption.
    - destruct H. apply (gbracket_nolit s l); assumption.
  Qed.

  Lemma gsegs_nolit q : Forall (gseg_good sel sgood) q -> fa_segments T_ P_ (segments_of_list (map (gseg_ast sel sast) q)) = true.
  Proof.
    intros H. rewrite fa_segments_list. apply forallb_forall. intros x Hx. apply in_map_iff in Hx.
    destruct Hx as [g [<- Hg]]. apply gseg_nolit. rewrite Forall_forall in H. apply H. exact Hg.
  Qed.

  Lemma single_or_fa (wrap : list filter -> filter) l :
    (forall l', fa_filter T_ P_ (wrap l') = forallb (fa_filter T_ P_) l') ->
    forallb (fa_filter T_ P_) l = true -> fa_filter T_ P_ (single_or wrap l) = true.
  Proof.
    intros Hw H. unfold single_or. destruct l as [|x [|y l]]; [rewrite Hw; reflexivity| |rewrite Hw; exact H].
    cbn [forallb] in H. rewrite andb_true_r in H. exact H.
  Qed.

  Lemma lit_ast_nolit l : P_ (lit_ast l) = true.
  Proof. destruct l; reflexivity. Qed.

  Lemma fn_nolit_all :
    (forall f, fgood sel sgood sast patok f -> fa_tfun T_ P_ (fn_ast sel sast f) = true)
    /\ (forall a, arggood sel sgood sast patok a -> fa_fnarg T_ P_ (arg_ast sel sast a) = true).
  Proof.
    apply (xfn_xarg_ind sel).
    - intros k a IH [Hg _]. specialize (IH Hg). destruct k; exact IH.
    - intros k a IHa b IHb [Ha [Hb _]]. specialize (IHa Ha). specialize (IHb Hb).
      destruct k;
        [change (fa_fnarg T_ P_ (arg_ast sel sast a) && fa_fnarg T_ P_ (arg_ast sel sast b) = true)
        |change (fa_fnarg T_ P_ (arg_ast sel sast a) && fa_fnarg T_ P_ (arg_ast sel sast b) = true)
        |change (fa_fnarg T_ P_ (arg_ast sel sast a) && (fa_fnarg T_ P_ (arg_ast sel sast b) && true) = true)..];
        rewrite IHa, IHb; reflexivity.
    - intros l _. apply lit_ast_nolit.
    - intros abs q Hq. change (Forall (gseg_good sel sgood) q) in Hq.
      destruct abs; change (fa_segments T_ P_ (segments_of_list (map (gseg_ast sel sast) q)) = true); apply gsegs_nolit; exact Hq.
    - intros f IH Hg. apply IH. exact Hg.
  Qed.
  Lemma fn_nolit f : fgood sel sgood sast patok f -> fa_tfun T_ P_ (fn_ast sel sast f) = true.
  Proof. apply fn_nolit_all. Qed.

  Lemma gcmp_nolit c : gcmp_good sel sgood sast patok c -> fa_comparable T_ P_ (gcmp_ast sel sast c) = true.
  Proof.
    destruct c as [c|f]; cbn [gcmp_good gcmp_ast]; intros H; [apply cmp_ast_nolit|].
    destruct H as [H _]. apply (fn_nolit f H).
  Qed.

  Definition Natom (a : xatom sel) : Prop := agood sel sgood sast patok a -> fa_atom T_ P_ (atom_ast sel sast a) = true.

  Lemma nolit_and c : (forall a, In a c -> Natom a /\ agood sel sgood sast patok a) -> fa_filter T_ P_ (and_ast sel sast c) = true.
  Proof.
    intros Hc. unfold and_ast. apply single_or_fa.
    - intros l'. change (fa_filters T_ P_ (filters_of_list l') = forallb (fa_filter T_ P_) l'). apply fa_filters_list.
    - apply forallb_forall. intros x Hx. apply in_map_iff in Hx. destruct Hx as [a [<- Ha]].
      destruct (Hc a Ha) as [HN Hg]. apply (HN Hg).
  Qed.

  Lemma nolit_or e : (forall c, In c e -> forall a, In a c -> Natom a /\ agood sel sgood sast patok a) -> fa_filter T_ P_ (or_ast sel sast e) = true.
  Proof.
    intros He. unfold or_ast. apply single_or_fa.
    - intros l'. change (fa_filters T_ P_ (filters_of_list l') = forallb (fa_filter T_ P_) l'). apply fa_filters_list.
    - apply forallb_forall. intros x Hx. apply in_map_iff in Hx. destruct Hx as [c [<- Hc]]. apply nolit_and. apply He. exact Hc.
  Qed.

  Lemma natom_all : forall n a, asize sel a <= n -> Natom a.
  Proof.
    induction n as [|n IH]; intros a Hsz.
    - destruct a; cbn [asize] in Hsz; lia.
    - intros Hg. destruct a as [neg e|neg abs q|o l r|neg f].
      + destruct (agood_paren_inv sel sgood sast patok neg e Hg) as [Hne He].
        change (fa_filter T_ P_ (or_ast sel sast e) = true). apply nolit_or. intros c Hc a Ha. split.
        * apply IH. pose proof (asize_in_paren sel neg e c a Hc Ha). lia.
        * destruct (He c Hc) as [_ H]. apply H. exact Ha.
      + pose proof (agood_test_inv sel sgood sast patok neg abs q Hg) as Hq. cbn [atom_ast].
        destruct abs; change (fa_segments T_ P_ (segments_of_list (map (gseg_ast sel sast) q)) = true); apply gsegs_nolit; exact Hq.
      + destruct (agood_cmp_inv sel sgood sast patok o l r Hg) as [Hl Hr]. cbn [atom_ast].
        change (fa_comparable T_ P_ (gcmp_ast sel sast l) && fa_comparable T_ P_ (gcmp_ast sel sast r) = true).
        rewrite !gcmp_nolit by assumption. reflexivity.
      + destruct (agood_fn_inv sel sgood sast patok neg f Hg) as [Hf _]. cbn [atom_ast]. apply (fn_nolit f Hf).
  Qed.

  Lemma filter_nolit e : egood sel sgood sast patok e -> fa_selector T_ P_ (SelFilter (or_ast sel sast e)) = true.
  Proof.
    intros [Hne He]. change (fa_filter T_ P_ (or_ast sel sast e) = true). apply nolit_or. intros c Hc a Ha.
    split; [apply (natom_all (asize sel a) a (le_n _))|]. destruct (He c Hc) as [_ H]. apply H. exact Ha.
  Qed.
End NoLit.

Lemma plain_nolit s : plain_good s -> fa_selector T_ P_ (sel_ast s) = true.
Proof. intros _. destruct s; reflexivity. Qed.

Lemma tower_nolit patok n : forall s, sgoodT patok n s -> fa_selector T_ P_ (sastT n s) = true.
Proof.
  induction n as [|n IH]; [exact plain_nolit|]. intros [p|e] Hg; cbn [sgoodT sastT sgood' sast'] in *.
  - apply plain_nolit. exact Hg.
  - apply (filter_nolit (SelT n) (sastT n) (sgoodT patok n) patok IH e Hg).
Qed.

(* ---------- lengths ---------- *)
Lemma lmax_bound {A} (f : A -> nat) l B : (forall x, In x l -> f x <= B) -> lmax f l <= B.
Proof.
  induction l as [|x l IH]; intros H; [cbn; lia|]. cbn [lmax fold_right]. fold (lmax f l).
  pose proof (H x (or_introl eq_refl)). assert (lmax f l <= B) by (apply IH; intros y Hy; apply H; right; exact Hy). lia.
Qed.

Lemma join_len {A} sep (f : A -> str) l x : In x l -> length (f x) <= length (join sep f l).
Proof.
  induction l as [|y l IH]; intros H; [destruct H|]. rewrite join_cons, app_length.
  destruct H as [->|H]; [lia|]. specialize (IH H). destruct l as [|z l]; [destruct H|].
  rewrite join_cons in IH. cbn [flat_map]. rewrite !app_length in *. lia.
Qed.

(* with every element non-empty: the number of elements plus any one element fits into the joined text *)
Lemma join_count {A} sep (f : A -> str) l x :
  (forall y, In y l -> 1 <= length (f y)) -> In x l -> length l + length (f x) <= length (join sep f l) + 1.
Proof.
  induction l as [|y l IH]; intros Hne H; [destruct H|]. rewrite join_cons, app_length. cbn [length].
  assert (Hl : forall y0, In y0 l -> 1 <= length (f y0)) by (intros y0 H0; apply Hne; right; exact H0).
  assert (Hfl : length l <= length (flat_map (fun y0 => sep ++ f y0) l)).
  { clear - Hl. induction l as [|z l IH]; [cbn; lia|]. cbn [flat_map length]. rewrite !app_length.
    pose proof (Hl z (or_introl eq_refl)). assert (length l <= length (flat_map (fun y0 => sep ++ f y0) l)) by (apply IH; intros y0 H0; apply Hl; right; exact H0). lia. }
  destruct H as [->|H].
  - lia.
  - pose proof (Hne y (or_introl eq_refl)). specialize (IH Hl H). destruct l as [|z l]; [destruct H|].
    rewrite join_cons in IH. cbn [flat_map] in *. rewrite !app_length in *. cbn [length] in *. lia.
Qed.

Lemma flat_map_len {A} (f : A -> str) l x : In x l -> length (f x) <= length (flat_map f l).
Proof.
  induction l as [|y l IH]; intros H; [destruct H|]. cbn [flat_map]. rewrite app_length.
  destruct H as [->|H]; [lia|]. specialize (IH H). lia.
Qed.
Lemma flat_map_count {A} (f : A -> str) l x :
  (forall y, In y l -> 1 <= length (f y)) -> In x l -> length l + length (f x) <= length (flat_map f l) + 1.
Proof.
  induction l as [|y l IH]; intros Hne H; [destruct H|]. cbn [flat_map length]. rewrite app_length.
  assert (Hl : forall y0, In y0 l -> 1 <= length (f y0)) by (intros y0 H0; apply Hne; right; exact H0).
  assert (Hfl : length l <= length (flat_map f l)).
  { clear - Hl. induction l as [|z l IH]; [cbn; lia|]. cbn [flat_map length]. rewrite app_length.
    pose proof (Hl z (or_introl eq_refl)). assert (length l <= length (flat_map f l)) by (apply IH; intros y0 H0; apply Hl; right; exact H0). lia. }
  destruct H as [->|H]; [lia|]. pose proof (Hne y (or_introl eq_refl)). specialize (IH Hl H). lia.
Qed.

Lemma int_text_len z : 1 <= length (int_text z).
Proof. destruct (int_text_head z) as [h [t [E _]]]. rewrite E. cbn [length]. lia. Qed.

Lemma xcmpb_len c : 1 <= length (xcmpb_text c).
Proof.
  destruct c as [[z|k|[|]| ]|abs l]; cbn [xcmpb_text xlit_text xsq_text s_true s_false s_null length]; try lia.
  apply int_text_len.
Qed.

(* ---------- the fuel of the walk ---------- *)
Section Fuel.
  Variable sel : Type.
  Variable stext : sel -> str.
  Variable sfuel : sel -> nat.
  Hypothesis Hs : forall s, sfuel s <= 8 * length (stext s).

  Lemma gfuel_len g : gfuel sel sfuel g <= 8 * length (gseg_text sel stext g).
  Proof.
    assert (Hb : forall s l, Nat.max (sfuel s) (lfuel sel sfuel l) <= 8 * length (gbracket_text sel stext s l)).
    { intros s l. unfold gbracket_text. cbn [length]. rewrite !app_length. pose proof (Hs s).
      assert (lfuel sel sfuel l <= 8 * length (gcommas_text sel stext l)).
      { unfold lfuel. apply (lmax_bound sfuel l). intros x Hx. pose proof (Hs x).
        pose proof (flat_map_len (fun s0 => 44%N :: stext s0) l x Hx) as H1. cbn [length] in H1. unfold gcommas_text. lia. }
      lia. }
    destruct g as [s l|n| |s l|n| ]; cbn [gfuel gseg_text length]; try lia.
    - apply Hb.
    - pose proof (Hb s l). lia.
  Qed.

  Lemma qfuel_len q : qfuel sel sfuel q <= 8 * length (gsegs_text sel stext q).
  Proof.
    unfold qfuel. apply (lmax_bound (gfuel sel sfuel) q). intros g Hg. pose proof (gfuel_len g).
    pose proof (flat_map_len (gseg_text sel stext) q g Hg). unfold gsegs_text. lia.
  Qed.

  Lemma xlit_len l : 1 <= length (xlit_text l).
  Proof.
    destruct l as [z|k|[|]| ]; cbn [xlit_text s_true s_false s_null length]; try lia.
    destruct (int_text_head z) as [h [t [E _]]]. rewrite E. cbn [length]. lia.
  Qed.
  Lemma fn1_name_len k : 5 <= length (fn1_name k).
  Proof. destruct k; cbn; lia. Qed.
  Lemma fn2_name_len k : 2 <= length (fn2_name k).
  Proof. destruct k; cbn; lia. Qed.

  Lemma ffuel_len_all :
    (forall f, ffuel sel sfuel f + 16 <= 8 * length (ftext sel stext f))
    /\ (forall a, argfuel sel sfuel a <= 8 * length (argtext sel stext a)).
  Proof.
    apply (xfn_xarg_ind sel).
    - intros k a IH. change (ffuel sel sfuel (XFn1 sel k a)) with (S (argfuel sel sfuel a)).
      change (ftext sel stext (XFn1 sel k a)) with (fn1_name k ++ 40%N :: argtext sel stext a ++ [41%N]).
      rewrite app_length. cbn [length]. rewrite app_length. cbn [length]. pose proof (fn1_name_len k). lia.
    - intros k a IHa b IHb. change (ffuel sel sfuel (XFn2 sel k a b)) with (S (Nat.max (argfuel sel sfuel a) (argfuel sel sfuel b))).
      change (ftext sel stext (XFn2 sel k a b)) with (fn2_name k ++ 40%N :: argtext sel stext a ++ 44%N :: argtext sel stext b ++ [41%N]).
      rewrite app_length. cbn [length]. rewrite app_length. cbn [length]. rewrite app_length. cbn [length].
      pose proof (fn2_name_len k). lia.
    - intros l. change (argfuel sel sfuel (XALit sel l)) with 1. change (argtext sel stext (XALit sel l)) with (xlit_text l).
      pose proof (xlit_len l). lia.
    - intros abs q. change (argfuel sel sfuel (XAQuery sel abs q)) with (6 + qfuel sel sfuel q).
      change (argtext sel stext (XAQuery sel abs q)) with ((if abs then 36%N else 64%N) :: gsegs_text sel stext q).
      cbn [length]. pose proof (qfuel_len q). lia.
    - intros f IH. change (argfuel sel sfuel (XAFn sel f)) with (S (ffuel sel sfuel f)).
      change (argtext sel stext (XAFn sel f)) with (ftext sel stext f). lia.
  Qed.
  Lemma ffuel_len f : ffuel sel sfuel f + 16 <= 8 * length (ftext sel stext f).
  Proof. apply ffuel_len_all. Qed.

  Lemma gcmp_fuel_len c : gcmp_fuel sel sfuel c <= 8 * length (gcmp_text sel stext c).
  Proof.
    destruct c as [c|f]; cbn [gcmp_fuel gcmp_text].
    - pose proof (xcmpb_len c). lia.
    - pose proof (ffuel_len f). lia.
  Qed.

  Lemma afuel_len : forall n a, asize sel a <= n -> afuel sel sfuel a <= 8 * length (atext sel stext a).
  Proof.
    induction n as [|n IH]; intros a Hsz; [destruct a; cbn [asize] in Hsz; lia|].
    destruct a as [neg e|neg abs q|o l r|neg f]; cbn [afuel atext].
    - rewrite !app_length. cbn [length]. rewrite app_length. cbn [length].
      assert (lmax (fun c => lmax (afuel sel sfuel) c) e <= 8 * length (join s_or (join s_and (atext sel stext)) e)).
      { apply lmax_bound. intros c Hc. apply lmax_bound. intros a Ha.
        assert (Ha8 : afuel sel sfuel a <= 8 * length (atext sel stext a)).
        { apply IH. pose proof (asize_in_paren sel neg e c a Hc Ha). lia. }
        pose proof (join_len s_and (atext sel stext) c a Ha).
        pose proof (join_len s_or (join s_and (atext sel stext)) e c Hc). lia. }
      lia.
    - rewrite app_length. cbn [length]. pose proof (qfuel_len q). lia.
    - unfold gxcmp_text. rewrite !app_length. pose proof (gcmp_fuel_len l). pose proof (gcmp_fuel_len r).
      destruct o; cbn [op_text length]; lia.
    - rewrite app_length. pose proof (ffuel_len f). lia.
  Qed.

  Lemma efuel_len e : efuel sel sfuel e <= 8 * length (or_text sel stext e).
  Proof.
    unfold efuel. apply lmax_bound. intros c Hc. unfold cfuel. apply lmax_bound. intros a Ha.
    pose proof (afuel_len (asize sel a) a (le_n _)).
    pose proof (join_len s_and (atext sel stext) c a Ha).
    pose proof (join_len s_or (and_text sel stext) e c Hc) as H1.
    change (and_text sel stext c) with (join s_and (atext sel stext) c) in H1. unfold or_text. lia.
  Qed.
End Fuel.

Lemma tower_fuel n : forall s, sfuelT n s <= 8 * length (stextT n s).
Proof.
  induction n as [|n IH]; [intros s; cbn; lia|]. intros [p|e]; cbn [sfuelT stextT sfuel' stext'].
  - lia.
  - unfold filter_text. cbn [length]. pose proof (efuel_len (SelT n) (stextT n) (sfuelT n) IH e). lia.
Qed.

(* ---------- the depth of the PEG derivation ---------- *)
Section Depth.
  Variable sel : Type.
  Variable stext : sel -> str.
  Variable sok : sel -> Prop.
  Variable sdep : sel -> nat.
  Hypothesis Hs : forall s, sok s -> sdep s <= 300 * length (stext s).

  Lemma ldep_len l : Forall sok l -> forall x, In x l -> sdep x + length l <= 300 * length (gcommas_text sel stext l).
  Proof.
    intros Hl x Hx. rewrite Forall_forall in Hl. pose proof (Hs x (Hl x Hx)).
    pose proof (flat_map_count (fun s0 => 44%N :: stext s0) l x) as H1. cbn [length] in H1.
    assert (H2 : length l + S (length (stext x)) <= length (flat_map (fun s0 => 44%N :: stext s0) l) + 1).
    { apply H1; [intros y _; lia|exact Hx]. }
    unfold gcommas_text. lia.
  Qed.

  Lemma gdep_len g : gseg_ok sel sok g -> gdep sel sdep g <= 300 * length (gseg_text sel stext g).
  Proof.
    assert (Hb : forall s l, sok s -> Forall sok l -> 40 + bdep sel sdep s l <= 300 * length (gbracket_text sel stext s l)).
    { intros s l H1 Hl. unfold bdep, gbracket_text. cbn [length]. rewrite !app_length. cbn [length]. pose proof (Hs s H1).
      assert (ldep sel sdep l <= 300 * length (gcommas_text sel stext l) - length l).
      { unfold ldep. assert (lmax sdep l <= 300 * length (gcommas_text sel stext l) - length l); [|unfold lmax in *; lia].
        apply lmax_bound. intros x Hx. pose proof (ldep_len l Hl x Hx). lia. }
      assert (length l <= length (gcommas_text sel stext l)).
      { unfold gcommas_text. clear. induction l as [|y l IH]; [cbn; lia|]. cbn [flat_map length]. rewrite app_length. cbn [length]. lia. }
      lia. }
    destruct g as [s l|n| |s l|n| ]; cbn [gseg_ok gdep gseg_text length]; intros H; try lia.
    - destruct H. apply Hb; assumption.
    - destruct H as [H1 H2]. pose proof (Hb s l H1 H2). lia.
  Qed.

  Lemma qdep_len q : Forall (gseg_ok sel sok) q -> length q + qdep sel sdep q <= 300 * length (gsegs_text sel stext q) + 1.
  Proof.
    intros Hq. destruct q as [|g0 q0] eqn:Eq; [cbn; lia|]. rewrite <- Eq in *.
    assert (Hm : qdep sel sdep q + length q <= 300 * length (gsegs_text sel stext q) + 1); [|lia].
    assert (Hlen : 1 <= length q) by (rewrite Eq; cbn; lia).
    assert (qdep sel sdep q <= 300 * (length (gsegs_text sel stext q) + 1 - length q)); [|
      assert (length q <= length (gsegs_text sel stext q) + 1); [|lia]].
    - unfold qdep. apply (lmax_bound (gdep sel sdep) q). intros g Hg. rewrite Forall_forall in Hq.
      pose proof (gdep_len g (Hq g Hg)).
      pose proof (flat_map_count (gseg_text sel stext) q g (fun y _ => gseg_len_pos sel stext y) Hg). unfold gsegs_text. lia.
    - pose proof (flat_map_count (gseg_text sel stext) q g0 (fun y _ => gseg_len_pos sel stext y)) as H1.
      assert (In g0 q) by (rewrite Eq; left; reflexivity). specialize (H1 H0).
      pose proof (gseg_len_pos sel stext g0). unfold gsegs_text. lia.
  Qed.

  Lemma ftext_len f : 4 <= length (ftext sel stext f).
  Proof.
    destruct f as [k a|k a b].
    - change (ftext sel stext (XFn1 sel k a)) with (fn1_name k ++ 40%N :: argtext sel stext a ++ [41%N]).
      rewrite app_length. cbn [length]. rewrite app_length. cbn [length]. pose proof (fn1_name_len k). lia.
    - change (ftext sel stext (XFn2 sel k a b)) with (fn2_name k ++ 40%N :: argtext sel stext a ++ 44%N :: argtext sel stext b ++ [41%N]).
      rewrite app_length. cbn [length]. rewrite app_length. cbn [length]. pose proof (fn2_name_len k). lia.
  Qed.
  Lemma gcmp_len c : 1 <= length (gcmp_text sel stext c).
  Proof. destruct c as [c|f]; cbn [gcmp_text]; [apply xcmpb_len|pose proof (ftext_len f); lia]. Qed.

  Lemma fdep_len_all :
    (forall f, fok sel sok f -> fdep sel sdep f + 300 <= 300 * length (ftext sel stext f))
    /\ (forall a, argok sel sok a -> argdep sel sdep a <= 300 * length (argtext sel stext a)).
  Proof.
    apply (xfn_xarg_ind sel).
    - intros k a IH Hok. change (fok sel sok (XFn1 sel k a)) with (argok sel sok a) in Hok. specialize (IH Hok).
      change (fdep sel sdep (XFn1 sel k a)) with (100 + argdep sel sdep a).
      change (ftext sel stext (XFn1 sel k a)) with (fn1_name k ++ 40%N :: argtext sel stext a ++ [41%N]).
      rewrite app_length. cbn [length]. rewrite app_length. cbn [length]. pose proof (fn1_name_len k). lia.
    - intros k a IHa b IHb Hok. change (fok sel sok (XFn2 sel k a b)) with (argok sel sok a /\ argok sel sok b) in Hok.
      destruct Hok as [Ha Hb]. specialize (IHa Ha). specialize (IHb Hb).
      change (fdep sel sdep (XFn2 sel k a b)) with (100 + (argdep sel sdep a + argdep sel sdep b)).
      change (ftext sel stext (XFn2 sel k a b)) with (fn2_name k ++ 40%N :: argtext sel stext a ++ 44%N :: argtext sel stext b ++ [41%N]).
      rewrite app_length. cbn [length]. rewrite app_length. cbn [length]. rewrite app_length. cbn [length].
      pose proof (fn2_name_len k). lia.
    - intros l _. change (argdep sel sdep (XALit sel l)) with (80 + length (xlit_text l)).
      change (argtext sel stext (XALit sel l)) with (xlit_text l). pose proof (xlit_len l). lia.
    - intros abs q Hq. change (argok sel sok (XAQuery sel abs q)) with (Forall (gseg_ok sel sok) q) in Hq.
      change (argdep sel sdep (XAQuery sel abs q)) with (120 + (length q + qdep sel sdep q)).
      change (argtext sel stext (XAQuery sel abs q)) with ((if abs then 36%N else 64%N) :: gsegs_text sel stext q).
      cbn [length]. pose proof (qdep_len q Hq). lia.
    - intros f IH Hok. change (argok sel sok (XAFn sel f)) with (fok sel sok f) in Hok. specialize (IH Hok).
      change (argdep sel sdep (XAFn sel f)) with (60 + fdep sel sdep f).
      change (argtext sel stext (XAFn sel f)) with (ftext sel stext f). lia.
  Qed.
  Lemma fdep_len f : fok sel sok f -> fdep sel sdep f + 300 <= 300 * length (ftext sel stext f).
  Proof. apply fdep_len_all. Qed.
  Lemma gcmp_dep_len c : gcmp_ok sel sok c -> gcmp_dep sel sdep c + 100 <= 300 * length (gcmp_text sel stext c).
  Proof.
    destruct c as [c|f]; cbn [gcmp_ok gcmp_dep gcmp_text]; intros H.
    - pose proof (xcmpb_len c). lia.
    - pose proof (fdep_len f H). lia.
  Qed.

  Lemma atext_len a : aok sel sok a -> 1 <= length (atext sel stext a).
  Proof.
    intros H. destruct H as [neg e _ _|neg abs q _|o l r _ _|neg f _]; cbn [atext].
    - rewrite app_length. cbn [length]. lia.
    - rewrite app_length. cbn [length]. lia.
    - unfold gxcmp_text. rewrite !app_length. pose proof (gcmp_len l). lia.
    - rewrite app_length. pose proof (ftext_len f). lia.
  Qed.

  Definition Datom (a : xatom sel) : Prop := aok sel sok a -> adep sel sdep a <= 300 * length (atext sel stext a).

  Lemma cdep_len c : c <> [] -> (forall a, In a c -> Datom a /\ aok sel sok a) ->
    cdep sel sdep c <= 300 * length (and_text sel stext c) + 62.
  Proof.
    intros Hne Hc. unfold cdep, and_text.
    assert (Hlen : 1 <= length c) by (destruct c; [contradiction|cbn; lia]).
    assert (Hcount : forall a, In a c -> length c + length (atext sel stext a) <= length (join s_and (atext sel stext) c) + 1).
    { intros a Ha. apply join_count; [|exact Ha]. intros y Hy. apply atext_len. apply Hc. exact Hy. }
    assert (lmax (adep sel sdep) c <= 300 * (length (join s_and (atext sel stext) c) + 1 - length c)).
    { apply lmax_bound. intros a Ha. destruct (Hc a Ha) as [HD Hok]. pose proof (HD Hok). pose proof (Hcount a Ha). lia. }
    destruct c as [|a0 c0]; [contradiction|]. pose proof (Hcount a0 (or_introl eq_refl)).
    pose proof (atext_len a0 (proj2 (Hc a0 (or_introl eq_refl)))). lia.
  Qed.

  Lemma and_text_len c : c <> [] -> (forall a, In a c -> aok sel sok a) -> 1 <= length (and_text sel stext c).
  Proof.
    intros Hne Hc. destruct c as [|a c]; [contradiction|]. unfold and_text. rewrite join_cons, app_length.
    pose proof (atext_len a (Hc a (or_introl eq_refl))). lia.
  Qed.

  Lemma edep_len e : e <> [] -> (forall c, In c e -> c <> [] /\ forall a, In a c -> Datom a /\ aok sel sok a) ->
    edep sel sdep e <= 300 * length (or_text sel stext e) + 123.
  Proof.
    intros Hne He. unfold edep, or_text.
    assert (Hcount : forall c, In c e -> length e + length (and_text sel stext c) <= length (join s_or (and_text sel stext) e) + 1).
    { intros c Hc. apply join_count; [|exact Hc]. intros y Hy. destruct (He y Hy) as [Hyne Hya].
      apply and_text_len; [exact Hyne|]. intros a Ha. apply Hya. exact Ha. }
    assert (lmax (cdep sel sdep) e <= 300 * (length (join s_or (and_text sel stext) e) + 1 - length e) + 62).
    { apply lmax_bound. intros c Hc. destruct (He c Hc) as [Hcne Hca]. pose proof (cdep_len c Hcne Hca). pose proof (Hcount c Hc). lia. }
    destruct e as [|c0 e0]; [contradiction|]. pose proof (Hcount c0 (or_introl eq_refl)).
    destruct (He c0 (or_introl eq_refl)) as [Hc0 Ha0].
    assert (1 <= length (and_text sel stext c0)) by (apply and_text_len; [exact Hc0|intros a Ha; apply Ha0; exact Ha]).
    cbn [length] in *. lia.
  Qed.

  Lemma datom_all : forall n a, asize sel a <= n -> Datom a.
  Proof.
    induction n as [|n IH]; intros a Hsz; [destruct a; cbn [asize] in Hsz; lia|].
    intros Hok. destruct a as [neg e|neg abs q|o l r|neg f].
    - inversion Hok as [neg' e' Hne He| | |]; subst.
      assert (Hed : edep sel sdep e <= 300 * length (or_text sel stext e) + 123).
      { apply edep_len; [exact Hne|]. intros c Hc. destruct (He c Hc) as [Hcne Hca]. split; [exact Hcne|].
        intros a Ha. split; [|apply Hca; exact Ha]. apply IH. pose proof (asize_in_paren sel neg e c a Hc Ha). lia. }
      change (adep sel sdep (XParen sel neg e)) with (60 + edep sel sdep e).
      cbn [atext]. change (join s_or (join s_and (atext sel stext)) e) with (or_text sel stext e).
      rewrite !app_length. cbn [length]. rewrite app_length. cbn [length]. lia.
    - inversion Hok as [|neg' abs' q' Hq| |]; subst. cbn [adep atext]. rewrite app_length. cbn [length].
      pose proof (qdep_len q Hq). lia.
    - inversion Hok as [| |o' l' r' Hl Hr|]; subst. cbn [adep atext]. unfold gxcmp_text. rewrite !app_length.
      pose proof (gcmp_dep_len l Hl). pose proof (gcmp_dep_len r Hr). destruct o; cbn [op_text length]; lia.
    - inversion Hok as [| | |neg' f' Hf]; subst. cbn [adep atext]. rewrite app_length. pose proof (fdep_len f Hf). lia.
  Qed.

  Lemma filter_dep e : eok sel sok e -> 60 + edep sel sdep e <= 300 * length (filter_text sel stext e).
  Proof.
    intros [Hne He]. unfold filter_text. cbn [length].
    assert (edep sel sdep e <= 300 * length (or_text sel stext e) + 123); [|lia].
    apply edep_len; [exact Hne|]. intros c Hc. destruct (He c Hc) as [Hcne Hca]. split; [exact Hcne|].
    intros a Ha. split; [apply (datom_all (asize sel a) a (le_n _))|apply Hca; exact Ha].
  Qed.
End Depth.

Lemma plain_depth s : sel_ok s -> plain_dep s <= 300 * length (sel_text s).
Proof.
  intros _. unfold plain_dep. assert (1 <= length (sel_text s)); [|lia].
  destruct s as [k| |i|a b c]; cbn [sel_text length]; try lia; [apply int_text_len|].
  rewrite !app_length. cbn [length]. lia.
Qed.

Lemma tower_depth n : forall s, sokT n s -> sdepT n s <= 300 * length (stextT n s).
Proof.
  induction n as [|n IH]; [exact plain_depth|]. intros [p|e] Hok; cbn [sokT sdepT stextT sok' sdep' stext'] in *.
  - apply plain_depth. exact Hok.
  - apply (filter_dep (SelT n) (stextT n) (sokT n) (sdepT n) IH e Hok).
Qed.

(* ---------- the round trip for the whole tower ---------- *)
Lemma gseg_text_last sel stext sok g : gseg_ok sel sok g ->
  exists m b, gseg_text sel stext g = m ++ [b] /\ is_blank b = false.
Proof.
  assert (Hname : forall n, name_ok n -> exists m b, n = m ++ [b] /\ is_blank b = false).
  { intros n Hn. destruct n as [|c r]; [destruct Hn|]. destruct Hn as [Hc Hr].
    destruct (exists_last (l := c :: r)) as [m [b E]]; [discriminate|]. exists m, b. split; [exact E|].
    apply name_char_not_blank. assert (Hin : In b (c :: r)) by (rewrite E; apply in_or_app; right; left; reflexivity).
    destruct Hin as [<-|Hin]; [apply name_first_char; exact Hc|apply (forallb_In _ _ _ Hr Hin)]. }
  destruct g as [s l|n| |s l|n| ]; cbn [gseg_ok gseg_text]; intros Hg.
  - exists (91%N :: stext s ++ gcommas_text sel stext l), 93%N. split; [unfold gbracket_text; list_eq|reflexivity].
  - destruct (Hname n Hg) as [m [b [E Hb]]]. exists (46%N :: m), b. rewrite E. split; [reflexivity|exact Hb].
  - exists [46%N], 42%N. split; reflexivity.
  - exists (46%N :: 46%N :: 91%N :: stext s ++ gcommas_text sel stext l), 93%N. split; [unfold gbracket_text; list_eq|reflexivity].
  - destruct (Hname n Hg) as [m [b [E Hb]]]. exists (46%N :: 46%N :: m), b. rewrite E. split; [reflexivity|exact Hb].
  - exists [46%N; 46%N], 42%N. split; reflexivity.
Qed.

Lemma gquery_not_trimmed sel stext sok q :
  Forall (gseg_ok sel sok) q -> trim_blank (36%N :: gsegs_text sel stext q) = 36%N :: gsegs_text sel stext q.
Proof.
  intros Hq. unfold trim_blank. destruct q as [|g q]; [apply trim_single; reflexivity|].
  assert (Hlast : exists m b, gsegs_text sel stext (g :: q) = m ++ [b] /\ is_blank b = false).
  { revert g Hq. induction q as [|g2 q IH]; intros g Hq.
    - unfold gsegs_text. cbn [flat_map]. rewrite app_nil_r. apply (gseg_text_last sel stext sok). apply (Forall_inv Hq).
    - destruct (IH g2 (Forall_inv_tail Hq)) as [m [b [E Hb]]].
      exists (gseg_text sel stext g ++ m), b. split; [|exact Hb].
      unfold gsegs_text in *. cbn [flat_map] in *. rewrite E. list_eq. }
  destruct Hlast as [m [b [E Hb]]]. rewrite E. apply trim_ends; [reflexivity|exact Hb].
Qed.

(* C06 for queries WITH filters: the canonical text of every query of the tower -- child and descendant
   segments, unions, plain selectors and filter selectors whose logical expressions combine existence tests,
   comparisons of singular queries and literals, negation, parentheses, && and ||, nested to depth n -- is read
   by the generated grammar and parser.rs as exactly its AST *)
Theorem parse_filter patok n (q : list (gseg (SelT n))) :
  Forall (gseg_ok (SelT n) (sokT n)) q -> Forall (gseg_good (SelT n) (sgoodT patok n)) q ->
  parse_query (36%N :: gsegs_text (SelT n) (stextT n) q)
  = POk (segments_of_list (map (gseg_ast (SelT n) (sastT n)) q)).
Proof.
  intros Hok Hgood. set (inp := 36%N :: gsegs_text (SelT n) (stextT n) q).
  pose proof (gquery_not_trimmed (SelT n) (stextT n) (sokT n) q Hok) as Ht. fold inp in Ht.
  unfold parse_query, parse_model. rewrite Ht, str_eqb_refl. cbn [negb]. unfold parse_rule.
  destruct (tower_spec n) as [H1 [H2 _]].
  pose proof (qdep_len (SelT n) (stextT n) (sokT n) (sdepT n) (tower_depth n) q Hok) as Hd.
  assert (Hfuel : 100 + (length q + qdep (SelT n) (sdepT n) q) <= parse_fuel inp).
  { unfold parse_fuel, inp. cbn [length]. lia. }
  pose proof (gmain_runs (SelT n) (stextT n) (spairT n) (sokT n) (sdepT n) H1 H2 q Hok (parse_fuel inp) Hfuel) as Hrun.
  fold inp in Hrun. rewrite Hrun. unfold gquery_pairs. cbn [next_down p_kids]. unfold b_jp_query. cbn [next_down p_kids bind].
  pose proof (qfuel_len (SelT n) (stextT n) (sfuelT n) (tower_fuel n) q) as Hqf.
  assert (E5 : exists f, parse_fuel inp = S (S (S (S (S f)))) /\ qfuel (SelT n) (sfuelT n) q <= f).
  { exists (995 + 400 * length inp). unfold parse_fuel. split; [lia|]. unfold inp. cbn [length]. lia. }
  destruct E5 as [f [E5 Hf]]. rewrite E5.
  change 1 with (length [36%N]).
  rewrite (gb_segments (SelT n) (stextT n) (spairT n) (sgoodT patok n) (sastT n) (sfuelT n) inp (tower_bspec patok n inp) f [36%N] q []);
    [|unfold inp; rewrite app_nil_r; reflexivity|exact Hgood|exact Hf].
  change (fa_segments (fun _ => true) (fun l => negb (has_inf_lit l))) with (fa_segments T_ P_).
  rewrite (gsegs_nolit (SelT n) (sastT n) (sgoodT patok n) (tower_nolit patok n) q Hgood). reflexivity.
Qed.
