"""Per-property checks: which cases are explored and how an answer triple is judged."""
import itertools
import time
from .core import PropCheck, Case, Verdict, parse_items, locs, kflags
from .sx import S, unS
from . import gen

MAXI = 2**53 - 1


def arr(n):
    return ("a",) + tuple(("i", 10 + i) for i in range(n))


class C11(PropCheck):
    pid = "C11"
    design_ref = "DESIGN.md section 3, C11"
    technique = "Coq proof (induction on loop fuel, lia) + exhaustive small-scope correspondence"
    level_text = ("Unbounded Coq theorems: the two while-loops of process_slice equal the closed-form RFC 9535 "
                  "2.3.4.2.2 index sequence for every length >= 0 and every start/end/step in Z u {absent}; all "
                  "produced indices are in bounds; process_index is the RFC index rule; both loops stop within "
                  "len iterations. The model is tied to selector.rs by running the extracted model and the crate "
                  "on the exhaustive scope ({absent} u [-8,8])^3 x len 0..7 plus extremes on every run. String level (C11_string_level_slice / _index): the TEXT $[a:b:c] or $[i], for all I-JSON integers and every subset of parts, through grammar, parser.rs and process_slice/process_index, returns exactly the RFC index sequence in order on every document.")
    level_note = ("hand model of process_index/process_slice in Z (machine-range questions are C08's); "
                  "correspondence is differential testing; see evidence trusted_base")
    rule = ("EVAL cases $[start:end:step] and $[i] built as ASTs; quick: exhaustive (start,end,step) in "
            "({absent} u [-8,8])^3 x array length 0..7 plus extremes +-(2^53-1) and non-array documents; "
            "non-trivial = the RFC result is non-empty; distinct = distinct (len,start,end,step) / (len,i)")

    def cases(self):
        out = []
        rng_vals = [None] + list(range(-8, 9))
        n = 0
        lens = range(0, 8)
        triples = list(itertools.product(rng_vals, rng_vals, rng_vals))
        if self.tier == "quick":
            # all triples, each on every length
            pass
        ext = [None, 0, 1, -1, 2, -2, MAXI, -MAXI, MAXI - 1, -(MAXI - 1), 7, -7, 8, -8, 6, -6,
               2**31, -2**31, 2**31 - 1, 2**32, -2**32, 2**32 + 1, -(2**32 + 1), 2**32 + 2, 2**33, -(2**33), 2**52, 2**53 - 2]
        triples_ext = [t for t in itertools.product(ext, ext, ext) if any(isinstance(x, int) and abs(x) > 8 for x in t)]
        if self.tier == "quick":
            triples_ext = self.rng.sample(triples_ext, 4000)
        for L in lens:
            d = arr(L)
            for (a, b, c) in triples:
                out.append(Case("s%d" % n, "EVAL", [("q", ("sel", ("slice", a, b, c))), d], {"len": L, "slice": [a, b, c]}))
                n += 1
        for (a, b, c) in triples_ext:
            L = self.rng.randrange(0, 8)
            out.append(Case("x%d" % n, "EVAL", [("q", ("sel", ("slice", a, b, c))), arr(L)], {"len": L, "slice": [a, b, c]}))
            n += 1
        # long arrays: lengths around the sizes at which an inline buffer, a chunked loop or a narrow counter would change path
        for L in (9, 15, 16, 17, 31, 32, 33, 63, 64, 65, 100, 127, 128, 129, 255, 256, 257, 1000, 1025):
            vals = [None, 0, 1, -1, 2, -2, 3, -3, 7, -7, L - 1, L, L + 1, -L, -L - 1, -L + 1, L // 2, -(L // 2), 10, -10, 100, -100, MAXI, -MAXI]
            d = arr(L)
            for _ in range(70 if self.tier == "quick" else 600):
                a, b, c = (self.rng.choice(vals) for _ in range(3))
                out.append(Case("g%d" % n, "EVAL", [("q", ("sel", ("slice", a, b, c))), d], {"len": L, "slice": [a, b, c]}))
                n += 1
            for i in (0, 1, -1, L - 1, L, -L, -L - 1, L // 2, 9, 10, 99, 100, 101, 255, 256):
                out.append(Case("g%d" % n, "EVAL", [("q", ("sel", ("idx", i))), d], {"len": L, "idx": i}))
                n += 1
        idxs = list(range(-10, 11)) + [MAXI, -MAXI, 2**31, -2**31, 2**32, -2**32]
        for L in range(0, 9):
            for i in idxs:
                out.append(Case("i%d" % n, "EVAL", [("q", ("sel", ("idx", i))), arr(L)], {"len": L, "idx": i}))
                n += 1
        # non-arrays select nothing; nested arrays; slices in multi-selector and descendant position
        others = ["null", ("b", 1), ("i", 3), S("abc"), ("o", (S("0"), ("i", 1)), (S("a"), ("i", 2))), ("o",)]
        for d in others:
            for sel in [("slice", None, None, None), ("slice", 0, 2, 1), ("slice", None, None, -1), ("idx", 0), ("idx", -1), ("slice", 1, None, 0)]:
                out.append(Case("n%d" % n, "EVAL", [("q", ("sel", sel)), d], {"non_array": True}))
                n += 1
        nested = ("a", arr(3), arr(0), ("a", arr(2), ("i", 5)), S("x"), arr(5))
        for sel in [("slice", None, None, 2), ("slice", -2, None, None), ("slice", None, None, -2), ("idx", -1), ("slice", 4, 0, -3)]:
            out.append(Case("d%d" % n, "EVAL", [("q", ("desc", ("sel", sel))), nested], {"nested": True}))
            n += 1
            out.append(Case("w%d" % n, "EVAL", [("q", ("sel", "wild"), ("sel", sel)), nested], {"nested": True}))
            n += 1
        # the same through the PARSER: the text $[a:b:c] / $[i] in every spelling of absent parts, with and without blanks
        def slice_text(a, b, c):
            sp = (lambda: self.rng.choice(["", "", " ", "  ", "\t"])) if self.rng.random() < 0.3 else (lambda: "")
            t = "$[" + sp() + ("" if a is None else str(a)) + sp() + ":" + sp() + ("" if b is None else str(b)) + sp()
            if c is not None:
                t += ":" + sp() + str(c) + sp()
            elif self.rng.random() < 0.5:
                t += ":" + sp()
            return t + "]"
        k = 0
        for (a, b, c) in triples:
            for L in self.rng.sample(range(0, 8), 2 if self.tier == "quick" else 8):
                text = slice_text(a, b, c)
                out.append(Case("ts%d" % k, "STR", [S(text), arr(L)], {"len": L, "slice": [a, b, c], "text": text}, impl=("E2E", [S(text), arr(L)])))
                k += 1
        for (a, b, c) in triples_ext[:1500]:
            L = self.rng.randrange(0, 8)
            text = slice_text(a, b, c)
            out.append(Case("tx%d" % k, "STR", [S(text), arr(L)], {"len": L, "slice": [a, b, c], "text": text}, impl=("E2E", [S(text), arr(L)])))
            k += 1
        for L in range(0, 9):
            for i in idxs:
                text = "$[%s%d%s]" % (self.rng.choice(["", "", " "]), i, self.rng.choice(["", "", " "]))
                out.append(Case("ti%d" % k, "STR", [S(text), arr(L)], {"len": L, "idx": i, "text": text}, impl=("E2E", [S(text), arr(L)])))
                k += 1
        self.exhaustive = True
        return out

    def judge(self, c, ans):
        I, M, R = parse_items(ans.get("I")), parse_items(ans.get("M")), parse_items(ans.get("R"))
        key = str(c.meta)
        nontrivial = isinstance(R, list) and len(R) > 0
        if isinstance(I, str) or isinstance(R, str):
            return Verdict("violation", detail="impl=%r rfc=%r" % (I, R), nontrivial=nontrivial, key=key)
        if locs(I) == locs(R):
            if M != I and locs(M) != locs(I):
                return Verdict("stale", detail="model differs from impl and RFC", nontrivial=nontrivial, key=key)
            return Verdict("ok", nontrivial=nontrivial, key=key)
        return Verdict("violation", detail="impl selects %r, RFC 9535 selects %r (model %r)" % (locs(I), locs(R), locs(M)),
                       nontrivial=nontrivial, key=key)




# ======================================================================================
# evaluator properties: shared machinery
# ======================================================================================
def np_of_locstr(loc):
    """Normalized Path (RFC 9535 2.7) of a location rendered as '$/n:97/i:0' -> code points str.
    Only used when the spec's own R line does not contain the location (it normally does)."""
    out = [36]
    for st in loc.split("/")[1:]:
        if st.startswith("i:"):
            out += [91] + [ord(c) for c in st[2:]] + [93]
        else:
            out += [91, 39]
            for c in [int(x) for x in st[2:].split(".") if x != ""]:
                esc = {8: [92, 98], 12: [92, 102], 10: [92, 110], 13: [92, 114], 9: [92, 116], 39: [92, 39], 92: [92, 92]}
                if c in esc:
                    out += esc[c]
                elif c < 32:
                    out += [92, 117, 48, 48] + [ord(x) for x in "%02x" % c]
                else:
                    out.append(c)
            out += [39, 93]
    return ".".join(str(c) for c in out)


class EvalProp(PropCheck):
    """(query, document) pairs; the query reaches the crate either as a string through the public
    API (E2E: parser included) or as a programmatically built AST (EVAL)."""
    n_quick = 20000
    n_thorough = 120000
    e2e_share = 0.6
    blank = 0.15
    scale = False          # add the deterministic large-input cases of scale_pairs()

    def profile(self):
        return gen.Profile()

    def make_case(self, cid, q, d, meta=None):
        meta = dict(meta or {})
        if gen.parser_shaped(q) and self.rng.random() < self.e2e_share and gen.renderable(q):
            ly = gen.Layout(self.rng, blank=self.blank if self.rng.random() < 0.5 else 0.0)
            try:
                text = gen.render(q, ly)
            except Exception:
                text = None
            if text is not None:
                meta["query"] = text
                return Case(cid, "EVAL", [q, d], meta, impl=("E2E", [S(text), d]))
        return Case(cid, "EVAL", [q, d], meta)

    def pairs(self, g, n):
        for i in range(n):
            yield g.pair()

    def extra_cases(self):
        return []

    def cases(self):
        g = gen.Gen(self.rng, self.profile())
        n = self.n_quick if self.tier == "quick" else self.n_thorough
        out = []
        for i, (q, d) in enumerate(self.pairs(g, n)):
            out.append(self.make_case("r%d" % i, q, d))
        for j, c in enumerate(self.extra_cases()):
            c.id = "x%d" % j
            out.append(c)
        return out

    def scale_cases(self):
        if not self.scale:
            return []
        return [self.make_case("z%d" % j, q, d, meta) for j, (q, d, meta) in enumerate(scale_pairs())]

    # --- observables ---
    def obs(self, items):
        """which nodes are selected, with multiplicity (their order is C02's observable)"""
        return sorted(locs(items))

    def known_class(self, c, ans, I, M, R, S, K):
        """the listed class that explains impl = model <> RFC on this case, or None"""
        return None

    def extra_checks(self, c, ans, I, M, R):
        """property-specific checks on the implementation's own answer; return detail or None"""
        return None

    def nontrivial(self, c, I, R):
        return isinstance(R, list) and len(R) > 0

    def key(self, c):
        return sx_key(c)

    def judge(self, c, ans):
        I, M, R, S_ = (parse_items(ans.get(t)) for t in ("I", "M", "R", "S"))
        K = kflags(ans.get("K"))
        nt = self.nontrivial(c, I, R)
        key = self.key(c)
        self.count("mode_" + ("e2e" if c.impl else "ast"))
        if isinstance(R, str) or isinstance(M, str) and M != "ERR":
            return Verdict("violation", detail="model/spec driver did not answer: M=%r R=%r" % (M, R), nontrivial=nt, key=key)
        if not K.get("wf", True):
            return Verdict("ok", detail="document outside the domain (duplicate member names)")
        if not K.get("rx", True):
            self.count("skipped_regex_outside_dialect")
            return Verdict("ok", detail="a regular expression of the case is outside the modelled dialect: nothing is claimed")
        if isinstance(I, str):
            # evaluation failed, panicked, aborted or the valid query string was rejected
            return Verdict("violation", detail="implementation answered %s where RFC 9535 selects %r" % (I, locs(R)), nontrivial=nt, key=key)
        if c.impl is not None:
            extra = ans.get("I")[2:] if len(ans.get("I", [])) > 2 else []
            for flag in extra:
                if flag in ("entry=0", "parsed_once=0", "DOC_CHANGED"):
                    return Verdict("violation", detail="public entry points disagree: %s" % flag, nontrivial=nt, key=key)
        if any(l == "FOREIGN" for l in locs(I)):
            return Verdict("violation", detail="a returned value is not a node of the caller's document", nontrivial=nt, key=key)
        e = self.extra_checks(c, ans, I, M, R)
        if e:
            return Verdict("violation", detail=e, nontrivial=nt, key=key)
        oI, oM, oR = self.obs(I), self.obs(M), self.obs(R)
        if oI == oR:
            if oM != oI:
                return Verdict("stale", detail="model differs from impl = RFC", nontrivial=nt, key=key)
            if K.get("dotcr", False):
                # RFC 9485 reads '.' as excluding CR; the dialect of this library lets it match CR
                self.count("known_D25")
                return Verdict("known", cls="D25-dot-matches-CR", detail="'.' matched a carriage return", nontrivial=nt, key=key)
            return Verdict("ok", nontrivial=nt, key=key)
        if oI == oM:
            cls = self.known_class(c, ans, I, M, R, S_, K)
            if cls:
                self.count("known_" + cls)
                return Verdict("known", cls=cls, detail="impl=model=%r rfc=%r" % (oI, oR), nontrivial=nt, key=key)
            return Verdict("violation", detail="implementation (and model) give %r, RFC 9535 gives %r; no listed known class applies" % (oI, oR), nontrivial=nt, key=key)
        return Verdict("violation", detail="implementation gives %r, RFC 9535 gives %r, model gives %r" % (oI, oR, oM), nontrivial=nt, key=key)

    def shrink_e2e(self, cur):
        """shrink an E2E case through its AST, re-rendering compactly"""
        from .core import shrink_tuple
        import itertools
        cands = []
        q, d = cur.fields
        for q2 in itertools.islice(shrink_tuple(q), 300):
            if len(cands) >= 60:
                break
            if gen.parser_shaped(q2) and gen.valid_ast(q2) and gen.renderable(q2):
                try:
                    text = gen.render(q2, gen.Layout(self.rng, 0.0))
                except Exception:
                    continue
                cands.append(Case("s%d" % len(cands), "EVAL", [q2, d], dict(cur.meta, query=text), impl=("E2E", [S(text), d])))
        for d2 in itertools.islice(shrink_tuple(d), 60):
            text = cur.meta.get("query")
            cands.append(Case("s%d" % len(cands), "EVAL", [q, d2], cur.meta, impl=("E2E", [cur.impl[1][0], d2])))
        return cands


def sx_key(c):
    from .sx import dump
    return "|".join(f if isinstance(f, str) else dump(f) for f in c.fields)


def d7_applies(K):
    return not K.get("names_plain", True)


def neg_index_path_cases(rng, n, tag):
    """(query text, document) where the text is a path of name and index steps to an existing node with index steps
    spelled negative (len-relative), names in shorthand or brackets"""
    out = []
    g = gen.Gen(rng, gen.Profile(max_depth=4))
    tries = 0
    while len(out) < n and tries < n * 30:
        tries += 1
        d = g.doc()
        cands = [l for l, _ in doc_locations(d) if l and loc_plain_py(l) and any(k == "i" for k, _ in l)]
        if not cands:
            continue
        loc = rng.choice(cands)
        text, cur, q = "$", d, ["q"]
        for kind, v in loc:
            if kind == "i":
                ln = len(cur) - 1
                w = v - ln if rng.random() < 0.7 else v
                text += "[%d]" % w
                q.append(("sel", ("idx", w)))
                cur = cur[1 + v]
            else:
                short = v and all(ch.isalpha() or ch == "_" for ch in v) and all(ord(ch) < 128 for ch in v)
                text += ("." + v) if (short and rng.random() < 0.5) else ("['" + v + "']")
                q.append(("sel", ("name", S(v if (short and text.endswith("." + v)) else "'" + v + "'"))))
                cur = dict((unS(k), x) for k, x in cur[1:])[v]
        out.append(Case("%s%d" % (tag, len(out)), "STR", [S(text), d], {"query": text, "table": "negative-index-path"}, impl=("E2E", [S(text), d])))
    return out


NUM_SPELLINGS = [
    ["0.3", "3e-1", "30e-2", "0.03e1", "3E-1", "0.30", "300e-3"],
    ["0.6", "6e-1", "60e-2", "0.06E1"],
    ["0.7", "7e-1", "70E-2"],
    ["123.456", "1.23456e2", "123456e-3", "12345.6e-2", "0.123456e3"],
    ["100", "1e2", "1E2", "1e+2", "1.0e2", "10e1", "100.0", "0.1e3", "1000e-1"],
    ["0", "-0", "0.0", "-0.0", "0e0", "-0e0", "-0.0e1", "0E-1", "-0E-1", "0e5", "-0.000"],
    ["1.5", "15e-1", "0.15e1", "1.50"],
    ["-2.5", "-25e-1", "-0.25e1", "-250e-2"],
    ["0.1", "1e-1", "10e-2", "0.01e1"],
    ["1.1", "11e-1", "0.11e1", "110e-2"],
    ["0.07", "7e-2", "0.7e-1"],
    ["4.35", "435e-2", "43.5e-1"],
    ["1e-7", "0.0000001", "10e-8"],
]


def number_spelling_doc():
    vals = [("i", 0), f_(0.0), "nz", f_(0.3), f_(0.6), f_(0.7), f_(123.456), ("i", 100), f_(100.0), f_(1.5), f_(-2.5), f_(0.1), f_(1.1),
            f_(0.07), f_(4.35), f_(1e-7), f_(0.30000000000000004), f_(0.29999999999999993), f_(0.6000000000000001), f_(0.7000000000000001),
            f_(123.45600000000002), ("i", 99), ("i", 101), ("i", 1), ("i", -1), f_(-0.5), f_(1e-200), f_(-1e-200), S("0.3"), S("0"), "null", ("b", 0)]
    return ("a",) + tuple(vals)


def number_spelling_cases():
    """(group, text) for every spelling of each number, each operator, literal on either side: equivalent spellings of one number
    must keep the same elements"""
    out = []
    for gi, grp in enumerate(NUM_SPELLINGS):
        for op in ("==", "!=", "<", "<=", ">", ">="):
            for side in (0, 1):
                for sp in grp:
                    text = "$[?@ %s %s]" % (op, sp) if side == 0 else "$[?%s %s @]" % (sp, op)
                    out.append(("n%d_%s_%d" % (gi, op, side), text))
    return out


def scale_pairs():
    """deterministic (query, document) pairs on LARGE inputs: arrays and objects of several hundred entries, unions and
    logical chains of dozens of operands, long non-ASCII strings, deep nesting -- what a size-triggered fast path, inline
    buffer or narrow counter would get wrong while every small input behaves"""
    out = []
    def cur(*names):
        return ("sq", "cur") + tuple(("n", S(n)) for n in names)
    def cmpv(op, j):
        return ("atom", ("cmp", op, cur("v"), ("lit", ("int", j))))
    big_arr = ("a",) + tuple(("o", (S("t"), ("a", ("i", i), ("i", i + 1))), (S("v"), ("i", i)), (S("w"), S("s%d" % (i % 7)))) for i in range(300))
    big_obj = ("o",) + tuple((S("k%03d" % i), ("i", i)) for i in range(300))
    nums = ("a",) + tuple(("i", (i * 37) % 1001) for i in range(1100))
    long_s = S("\u00e9" * 700 + "\U0001F600" * 300)
    strs = ("a", long_s, S("a" * 1000), S("\u00e9" * 1000), S("\U0001F600" * 1000), S("a" * 999), S("a" * 255), S("a" * 256), S("a" * 257), S("a" * 65), S(""))
    deep = nest_doc(60, leaf=("o", (S("x"), ("i", 1))))
    A = [("q", ("sel", "wild")), ("q", ("sel", ("slice", 5, 290, 7))), ("q", ("sel", ("slice", None, None, -3))), ("q", ("sel", ("slice", 280, None, None))),
         ("q", ("sels",) + tuple(("idx", (i * 13) % 300) for i in range(24))),
         ("q", ("sels",) + tuple(("idx", i) for i in (0, 0, 299, 299, 150, 0))),
         ("q", ("sels", ("slice", 0, 20, None), ("slice", 10, 40, 3), "wild", ("idx", 7))),
         ("q", ("sel", ("filter", cmpv("gt", 150)))),
         ("q", ("sel", ("filter", ("and",) + tuple(cmpv("ne", j) for j in range(0, 300, 10))))),
         ("q", ("sel", ("filter", ("or",) + tuple(cmpv("eq", j) for j in range(3, 300, 10))))),
         ("q", ("sel", ("filter", ("or", ("and", cmpv("gt", 10), cmpv("lt", 20)), ("and", cmpv("gt", 280), cmpv("le", 299)), cmpv("eq", 150))))),
         ("q", ("desc", ("sel", ("name", S("v"))))), ("q", ("desc", ("sel", ("idx", 1)))), ("q", ("sel", "wild"), ("sel", "wild")),
         ("q", ("desc", ("sel", "wild"))),
         ("q", ("sel", ("filter", ("atom", ("cmp", "eq", ("fn", ("length", ("argt", ("rel", ("sel", ("name", S("t"))))))), ("lit", ("int", 2))))))),
         ("q", ("sel", ("filter", ("atom", ("cmp", "ge", ("fn", ("count", ("argt", ("abs", ("sel", "wild"))))), ("lit", ("int", 300))))))),
         ("q", ("sel", ("filter", ("atom", ("cmp", "eq", ("fn", ("count", ("argt", ("abs", ("desc", ("sel", ("name", S("v")))))))), ("lit", ("int", 300))))))),
         ("q", ("sel", ("filter", ("atom", ("cmp", "eq", cur("v"), ("fn", ("value", ("argt", ("abs", ("sel", ("idx", 42)), ("sel", ("name", S("v"))))))))))))]
    for q in A:
        out.append((q, big_arr, {"scale": "array-300"}))
    B = [("q", ("sel", "wild")), ("q", ("sels", ("name", S("k000")), ("name", S("k150")), ("name", S("k299")), ("name", S("k300")))),
         ("q", ("desc", ("sel", "wild"))), ("q", ("sel", ("filter", ("atom", ("cmp", "gt", ("sq", "cur"), ("lit", ("int", 100))))))),
         ("q", ("sel", ("filter", ("atom", ("cmp", "eq", ("fn", ("length", ("argt", ("abs",)))), ("lit", ("int", 300)))))))]
    for q in B:
        out.append((q, big_obj, {"scale": "object-300"}))
    C = [("q", ("sel", "wild")), ("q", ("sel", ("slice", None, None, 97))), ("q", ("sel", ("slice", 1050, 10, -101))),
         ("q", ("sel", ("filter", ("atom", ("cmp", "eq", ("sq", "cur"), ("lit", ("int", 1000))))))),
         ("q", ("sel", ("filter", ("atom", ("cmp", "lt", ("sq", "cur"), ("lit", ("int", 3)))))))]
    for q in C:
        out.append((q, nums, {"scale": "array-1100"}))
    for n in (1000, 999, 256, 257, 65, 0):
        out.append((("q", ("sel", ("filter", ("atom", ("cmp", "eq", ("fn", ("length", ("argt", ("rel",)))), ("lit", ("int", n))))))), strs, {"scale": "long-strings"}))
    out.append((("q", ("sel", ("filter", ("atom", ("cmp", "eq", ("sq", "cur"), ("sq", "root", ("i", 0))))))), strs, {"scale": "long-strings"}))
    out.append((("q", ("sel", ("filter", ("atom", ("cmp", "lt", ("sq", "cur"), ("sq", "root", ("i", 2))))))), strs, {"scale": "long-strings"}))
    for q in (("q", ("desc", ("sel", ("name", S("x"))))), ("q", ("desc", ("sel", "wild"))), ("q", ("desc", ("sel", ("idx", 0))))):
        out.append((q, deep, {"scale": "depth-60"}))
    q = ("q",) + tuple(("sel", ("idx", 0)) if i % 2 == 0 else ("sel", ("name", S("a"))) for i in range(60)) + (("sel", ("name", S("x"))),)
    out.append((q, deep, {"scale": "segments-61"}))
    return out


class C01(EvalProp):
    pid = "C01"
    scale = True
    design_ref = "DESIGN.md section 3, C01"
    technique = "Coq refinement proof (model = RFC semantics, mutual induction over the AST) + differential correspondence"
    level_text = ("Unbounded Coq theorems relate the hand model of the evaluator to the RFC 9535 nodelist semantics for every "
                  "query AST and document (Refine.v); C01 is stated on multisets of locations so that the known ordering "
                  "deviation D1 does not weaken it. The model is tied to the crate on every run by evaluating generated "
                  "(query, document) pairs through both, locations of the crate's results being recovered by address inside "
                  "the caller's document (a copy or fabricated value shows up as FOREIGN). At string level the statement is proved end to end "
                  "(C01_string_level_filter_free, C01_string_level_with_filters: text of the query -> generated grammar -> parser.rs -> "
                  "evaluator = RFC nodelist) for the filter-free sublanguage and for filters nested to any depth in canonical spelling. "
                  "A singular query selects at most one node of every document (C01_singular_query_at_most_one_node, ..._model_at_most_one).")
    level_note = "hand model of src/query/*.rs; differential run is sampling; names with escapes are the listed known class D7"
    rule = ("random (query, document) pairs, 60% as query strings through query_with_path/query/query_only_path (random RFC layout), "
            "40% as programmatically built ASTs through js_path_process; observable = multiset of result locations found by "
            "address; non-trivial = RFC nodelist non-empty; distinct = distinct (AST, document)")

    def profile(self):
        return gen.Profile(odd_names=True, hostile_names=self.rng.random() < 0.5, programmatic=True)

    def cases(self):
        # two generator profiles: plain names only / with hostile names
        out = []
        n = self.n_quick if self.tier == "quick" else self.n_thorough
        for tag, prof in (("p", gen.Profile(odd_names=True, programmatic=True)),
                          ("h", gen.Profile(odd_names=True, hostile_names=True, programmatic=True))):
            g = gen.Gen(self.rng, prof)
            for i in range(n // 2):
                out.append(self.make_case("%s%d" % (tag, i), *g.pair()))
        # shorthand names that begin or end with a character Unicode calls white space but JSONPath does not (the only blank
        # characters of RFC 9535 are space, tab, LF, CR): as a segment, as a descendant segment and inside the singular queries
        # of a comparison; the document also has the member a Unicode-aware trim would produce
        k = 0
        for ws in ("\u0085", "\u00a0", "\u1680", "\u2000", "\u2003", "\u200a", "\u2028", "\u2029", "\u202f", "\u205f", "\u3000", "\ufeff", "\u200b"):
            for name in (ws + "n", "n" + ws, ws + "n" + ws, ws, ws + ws):
                t = name.strip() or "n"
                members = {"n": ("i", 3)}
                members[t] = ("i", 2)
                members[name] = ("i", 1)
                row = ("o",) + tuple((S(k_), members[k_]) for k_ in sorted(members, key=lambda x: [ord(c) for c in x]))
                d = ("a", row, ("o", (S(t), ("i", 1))), ("o", (S("zz"), row)))
                for q, text in ((("q", ("sel", ("idx", 0)), ("sel", ("name", S(name)))), "$[0].%s" % name),
                                (("q", ("desc", ("sel", ("name", S(name))))), "$..%s" % name),
                                (("q", ("sel", ("filter", ("atom", ("cmp", "eq", ("sq", "cur", ("n", S(name))), ("lit", ("int", 1))))))), "$[?@.%s==1]" % name),
                                (("q", ("sel", ("filter", ("atom", ("cmp", "eq", ("sq", "root", ("i", 0), ("n", S(name))), ("sq", "cur", ("n", S(t)))))))), "$[?$[0].%s==@.%s]" % (name, t)),
                                (("q", ("sel", ("filter", ("atom", ("atest", ("rel", ("sel", ("name", S(name)))), 0))))), "$[?@.%s]" % name)):
                    out.append(Case("w%d" % k, "EVAL", [q, d], {"query": text, "table": "unicode-space-shorthand"}, impl=("E2E", [S(text), d])))
                    k += 1
        # quoted names with a backslash escape and non-ASCII characters before and after it, in every position a name can take
        BS = chr(92)
        raw = ["dir" + BS * 2 + "/file", BS * 2 + "/", "a" + BS * 2 + BS + "/b", BS + "/" + BS * 2, "a" + BS + "/\u00e9", "\u00e9" + BS + "/k", "C:" + BS + BS + "Benutzer" + BS + BS + "J\u00f6rg", BS + BS + "\U0001F600", "\u65e5" + BS + "/\u672c",
               "\u00e9" + BS + BS + "\u00e9", "x" + BS + "/" + "\U0001F600y", "\u00fc" + BS + "/"]
        def unesc(t):
            return t.replace(BS + "/", "/").replace(BS + BS, BS)
        members = {}
        for t in raw:
            members[unesc(t)] = ("i", 1)
            members[t] = ("i", 2)
        members["plain"] = ("i", 1)
        row = ("o",) + tuple((S(k_), members[k_]) for k_ in sorted(members, key=lambda x: [ord(c) for c in x]))
        nd = ("a", row, ("o", (S("in"), row)))
        for t in raw:
            for text in ("$[0]['%s']" % t, '$[0]["%s"]' % t, "$..['%s']" % t, "$[?@['%s']==1]" % t, "$[0]['plain','%s']" % t, "$[?@['%s']]" % t):
                out.append(Case("e%d" % k, "STR", [S(text), nd], {"query": text, "table": "escape-then-non-ascii"}, impl=("E2E", [S(text), nd])))
                k += 1
        # names whose content is itself wrapped in quote characters, in singular queries and as selectors
        qm = {'"y"': ("i", 1), "y": ("i", 2), "'x'": ("i", 1), "x": ("i", 2), '""': ("i", 1), "''": ("i", 3), "": ("i", 2), '"': ("i", 4), "'": ("i", 5)}
        qrow = ("o",) + tuple((S(k_), qm[k_]) for k_ in sorted(qm, key=lambda x: [ord(c) for c in x]))
        qd = ("a", qrow, ("o", (S("y"), ("i", 1))), ("o", (S("x"), ("i", 1))), ("o", (S(""), ("i", 1))))
        for text in ("$[?@['\"y\"'] == 1]", "$[?@[\"'x'\"] == 1]", "$[?@['\"\"'] == 1]", "$[?@[\"''\"] == 3]", "$[?@['y'] == 1]", "$[?@[\"x\"] == 1]", "$[?@[''] == 1]",
                     "$[?1 == @['\"y\"']]", "$[?@['\"y\"']]", "$[0]['\"y\"']", "$[0][\"'x'\"]", "$[?$[0]['\"y\"'] == @['y']]", "$[?@['\"'] == 4]", "$[?@[\"'\"] == 5]"):
            out.append(Case("e%d" % k, "STR", [S(text), qd], {"query": text, "table": "quote-wrapped-names"}, impl=("E2E", [S(text), qd])))
            k += 1
        return out

    def obs(self, items):
        return sorted(locs(items))

    def known_class(self, c, ans, I, M, R, S_, K):
        if d7_applies(K):
            return "D7-escaped-names"
        return None


class C02(EvalProp):
    pid = "C02"
    scale = True
    design_ref = "DESIGN.md section 3, C02"
    technique = "Coq refinement proof + confinement of the selector-major deviation + differential correspondence"
    level_text = ("Theorem A (Refine.v): the model's result sequence equals the RFC semantics with the one switch sel_major on, for "
                  "every query and document; theorem B: with no multi-selector segment the two semantics coincide, so the order "
                  "is the RFC's; the remaining class (a multi-selector segment over several input nodes) is the known finding D1, "
                  "whose witness lemma is proved by vm_compute. Correspondence: sequences of result locations. String level (C02_string_level_union): the TEXT of a bracketed selection of names, wildcards, indices and slices, through the generated grammar, parser.rs and the evaluator, returns the nodes of the selectors in the order written (list equality).")
    level_note = "D1 (selector-major union order) is entrenched by the unit test query::tests::index_unit_keys_test; known finding"
    rule = ("random pairs biased to fan-out before unions, negative slice steps and descendants; observable = sequence of result "
            "locations; non-trivial = RFC nodelist has >= 2 nodes; a case is in class D1 iff the spec with sel_major differs from the RFC")

    def profile(self):
        return gen.Profile(odd_names=True, max_segments=4, max_width=4)

    def nontrivial(self, c, I, R):
        return isinstance(R, list) and len(R) >= 2

    def obs(self, items):
        return locs(items)

    def known_class(self, c, ans, I, M, R, S_, K):
        if isinstance(S_, list) and locs(S_) != locs(R) and locs(S_) == locs(I):
            return "D1-selector-major-union"
        if d7_applies(K):
            return "D7-escaped-names"
        return None

    def extra_cases(self):
        doc = ("a", ("a", ("i", 1), ("i", 2)), ("a", ("i", 3), ("i", 4)))
        q = ("q", ("sel", "wild"), ("sels", ("idx", 0), ("idx", 1)))
        out = [Case("w", "EVAL", [q, doc], {"witness": "D1"}, impl=("E2E", [S("$[*][0,1]"), doc]))]
        # every ordered pair of selectors in one bracketed selection applied to ONE node (no D1 involved): the
        # contributions must follow each other in the order written, duplicates kept
        pool = [("idx", i) for i in (-2, -1, 0, 1, 2, 3)] + ["wild"] + \
               [("slice", a, b, c) for a in (None, 0, 1, 3, -1) for b in (None, 0, 1, 3, -1) for c in (None, 1, 2, -1)]
        arr = ("a",) + tuple(("a", ("i", i)) for i in range(5))
        nested = o_(k=arr)
        for x in pool:
            for y in pool:
                out.append(self.make_case("u", ("q", ("sels", x, y)), arr, {"table": "union-pair"}))
        for k in range(1500):
            x, y, z = (self.rng.choice(pool) for _ in range(3))
            tail = self.rng.choice([(), (("sel", ("idx", 0)),), (("sel", "wild"),)])
            out.append(self.make_case("u", ("q", ("sel", ("name", S("k"))), ("sels", x, y, z)) + tail, nested, {"table": "union-triple"}))
        # unions of NAMES on one object: the members come in the order the selectors are written, not in member order
        nobj = o_(a=("i", 1), b=("i", 2), c=("i", 3), d=o_(a=("i", 4), b=("i", 5)))
        npool = [("name", S("'%s'" % k_)) for k_ in ("a", "b", "c", "d", "zz")] + ["wild"]
        for x_ in npool:
            for y_ in npool:
                out.append(self.make_case("un", ("q", ("sels", x_, y_)), nobj, {"table": "name-union-pair"}))
                out.append(self.make_case("un", ("q", ("sel", ("name", S("d"))), ("sels", x_, y_)), nobj, {"table": "name-union-pair-nested"}))
        for k in range(120):
            x_, y_, z_ = (self.rng.choice(npool) for _ in range(3))
            out.append(self.make_case("un", ("q", ("sels", x_, y_, z_)), nobj, {"table": "name-union-triple"}))
        # a descendant segment visits a node before its descendants: the member of the node itself comes before the same name found
        # deeper under a member that sorts earlier (and under array elements), at several depths
        one = ("i", 1)
        same = [o_(a=o_(b=one), b=("i", 2)), o_(children=("a", o_(name=S("c1")), o_(name=S("c2"))), name=S("p")), o_(a=o_(z=o_(z=one)), z=("i", 2)),
                o_(a=("a", o_(n=one), ("a", o_(n=("i", 2)))), n=("i", 3), z=o_(n=("i", 4))), ("a", o_(a=o_(k=one), k=("i", 2)), o_(k=("i", 3))),
                o_(a=o_(a=o_(a=one, b=("i", 0)), b=("i", 5)), b=("i", 9)), o_(b=o_(a=one), a=("i", 2), c=o_(a=("i", 3)))]
        for d in same:
            for nm in ("a", "b", "k", "n", "z", "name"):
                for q in (("q", ("desc", ("sel", ("name", S(nm))))), ("q", ("desc", ("sel", ("name", S(nm)))), ("desc", ("sel", ("name", S(nm))))),
                          ("q", ("desc", ("sels", ("name", S("'" + nm + "'")), ("idx", 0))))):
                    out.append(self.make_case("sn", q, d, {"table": "same-name-deeper"}))
        return out


class C03(EvalProp):
    pid = "C03"
    design_ref = "DESIGN.md section 3, C03"
    technique = "Coq proofs (paths are Normalized Paths; np injective; re-query through the parser model) + differential correspondence with re-query"
    level_text = ("Coq theorems: for documents whose member names need no escaping and queries without double-quoted or escaped names, "
                  "every path the model reports is np(location) (RFC 9535 2.7), through every selector kind and the descendant segment; "
                  "np is uniquely decodable for every name and index (a decoder inverts it), hence two results have the same path iff they "
                  "are at the same location; re-running a reported path returns exactly the reported node, at AST level and at string level "
                  "(the path string parsed by the generated grammar + parser.rs model, proved by symbolic execution of the PEG interpreter). "
                  "Correspondence compares the crate's path strings with np of the address-derived location and feeds every reported path "
                  "back as a query.")
    level_note = "D6 (raw, unescaped result paths) is entrenched by unit tests single_quote, name_sel, tab_key; known finding"
    rule = ("random pairs incl. hostile member names; observable = (location, path) per result, path compared with the Coq-computed "
            "Normalized Path; phase 2 re-queries every plain reported path; non-trivial = RFC nodelist non-empty; plus a 1234-element array (alone and nested) reached by index, negative index, slice, union, wildcard, filter and descendant, so that paths carry indices of up to four digits")

    def cases(self):
        out = []
        n = self.n_quick if self.tier == "quick" else self.n_thorough
        for tag, prof in (("p", gen.Profile(odd_names=True)), ("h", gen.Profile(odd_names=True, hostile_names=True))):
            g = gen.Gen(self.rng, prof)
            for i in range(n // 2):
                out.append(self.make_case("%s%d" % (tag, i), *g.pair()))
        # long arrays: indices of two, three and four digits in the reported paths, reached through every kind of selector
        big = ("a",) + tuple(("i", i) for i in range(1234))
        wrap = o_(k=big, m=("a", big, o_(z=big)))
        longq = [("q", ("sel", ("idx", 105))), ("q", ("sel", ("idx", 1000))), ("q", ("sel", ("idx", 1005))), ("q", ("sel", ("idx", -229))),
                 ("q", ("sel", ("idx", 1233))), ("q", ("sel", ("idx", 99))), ("q", ("sel", ("idx", 100))), ("q", ("sel", ("idx", 110))),
                 ("q", ("sel", ("slice", 95, 1110, 5))), ("q", ("sel", ("slice", None, None, -101))), ("q", ("sel", ("slice", 998, 1012, None))),
                 ("q", ("sel", "wild")), ("q", ("sels", ("idx", 1001), ("idx", 101), ("slice", 200, 210, 3))),
                 ("q", ("sel", ("filter", ("atom", ("cmp", "ge", ("sq", "cur"), ("lit", ("int", 995)))))))]
        for qi, q in enumerate(longq):
            out.append(self.make_case("L%d" % qi, q, big))
        # five-digit indices
        huge = ("a",) + tuple(("i", i % 97) for i in range(12500))
        for qi, q in enumerate([("q", ("sel", ("idx", 12345))), ("q", ("sel", ("idx", 10001))), ("q", ("sel", ("idx", 10100))), ("q", ("sel", ("idx", -1))),
                                ("q", ("sel", ("idx", 9999))), ("q", ("sel", ("idx", 10000))), ("q", ("sel", ("slice", 9990, 12400, 137))),
                                ("q", ("sel", ("slice", None, 9000, -1111))), ("q", ("sel", "wild")),
                                ("q", ("sel", ("filter", ("atom", ("cmp", "eq", ("sq", "cur"), ("lit", ("int", 96)))))))]):
            out.append(self.make_case("H%d" % qi, q, huge))
        # arrays of CONTAINERS: paths that pass through index 10, 100, 1000 on the way to a deeper node
        cont = ("a",) + tuple(o_(x=("i", i), y=("a", ("i", i), o_(z=("i", i)))) for i in range(1012))
        cwrap = o_(w=cont, v=("a",) + tuple(("a", ("i", i)) for i in range(13)))
        for qi, q in enumerate([("q", ("desc", ("sel", ("name", S("x"))))), ("q", ("desc", ("sel", ("name", S("z"))))), ("q", ("desc", ("sel", ("idx", 0)))),
                                ("q", ("sel", "wild"), ("sel", "wild"), ("sel", ("name", S("x")))), ("q", ("sel", ("name", S("w"))), ("sel", ("slice", 8, 12, None)), ("sel", ("name", S("y"))), ("sel", ("idx", 1))),
                                ("q", ("desc", ("sel", ("filter", ("atom", ("cmp", "eq", ("sq", "cur", ("n", S("z"))), ("lit", ("int", 1000)))))))),
                                ("q", ("sel", ("name", S("v"))), ("desc", ("sel", ("idx", 0)))), ("q", ("sel", ("name", S("w"))), ("sel", ("idx", 10)), ("desc", ("sel", "wild")))]):
            out.append(self.make_case("K%d" % qi, q, cwrap))
        # queries made of name and index selectors only, the index steps written negative: every entry point must report the real index
        out.extend(neg_index_path_cases(self.rng, 150 if self.tier == "quick" else 1500, "N"))
        for qi, q in enumerate([("q", ("desc", ("sel", ("idx", 1005)))), ("q", ("desc", ("sel", ("slice", 100, 110, None)))),
                                ("q", ("sel", ("name", S("m"))), ("sel", ("idx", 1)), ("sel", ("name", S("z"))), ("sel", ("idx", 207))),
                                ("q", ("desc", ("sel", ("filter", ("atom", ("cmp", "eq", ("sq", "cur"), ("lit", ("int", 1200))))))))]):
            out.append(self.make_case("M%d" % qi, q, wrap))
        return out

    def obs(self, items):
        return items          # (loc, path) pairs, in order? order is C02's business: compare as sorted
    
    def judge(self, c, ans):
        if c.meta.get("requery"):
            return self.judge_requery(c, ans)
        I, M, R, S_ = (parse_items(ans.get(t)) for t in ("I", "M", "R", "S"))
        K = kflags(ans.get("K"))
        nt = self.nontrivial(c, I, R)
        key = self.key(c)
        if isinstance(I, str) or isinstance(R, str) or isinstance(M, str):
            return Verdict("ok", detail="not a successful evaluation: other properties judge this")
        if sorted(locs(I)) != sorted(locs(R)):
            return Verdict("ok", detail="nodelist differs from the RFC's: C01 judges this")
        if c.impl is not None and "entry=0" in (ans.get("I") or [])[2:]:
            return Verdict("violation", detail="query_only_path / query_with_path / query disagree (paths or nodes) on %r" % (c.meta.get("query"),), nontrivial=nt, key=key)
        npmap = dict(R)
        mpath = {}
        for l, p in M:
            mpath.setdefault(l, set()).add(p)
        bad = None
        seen = {}
        for l, p in I:
            exp = npmap.get(l, np_of_locstr(l))
            if p in seen and seen[p] != l:
                bad = ("inj", l, p)
            seen[p] = l
            if p != exp:
                bad = bad or ("np", l, p, exp)
        if bad is None:
            return Verdict("ok", nontrivial=nt, key=key)
        l = bad[1]
        if all(p in mpath.get(l2, ()) for l2, p in I):
            if not (K.get("names_plain", True) and K.get("names_single", True) and K.get("doc_plain", True)):
                self.count("known_D6")
                return Verdict("known", cls="D6-raw-paths", detail=repr(bad), nontrivial=nt, key=key)
            return Verdict("violation", detail="path is not the Normalized Path although all names are plain: %r" % (bad,), nontrivial=nt, key=key)
        return Verdict("violation", detail="reported path differs from the Normalized Path and from the model: %r" % (bad,), nontrivial=nt, key=key)

    def followups(self, c, ans):
        if c.meta.get("requery") or self.rng.random() > 0.25:
            return []
        I, R = parse_items(ans.get("I")), parse_items(ans.get("R"))
        if isinstance(I, str) or isinstance(R, str):
            return []
        npmap = dict(R)
        out = []
        d = c.fields[1]
        for k, (l, p) in enumerate(I[:3]):
            if l in npmap and npmap[l] == p:
                text = "".join(chr(int(x)) for x in p.split("."))
                out.append(Case("%sq%d" % (c.id, k), "EVAL", [("q",), d], {"requery": True, "loc": l, "path": p},
                                impl=("E2E", [S(text), d])))
        return out

    def judge_requery(self, c, ans):
        I = parse_items(ans.get("I"))
        want = [(c.meta["loc"], c.meta["path"])]
        if I == want:
            return Verdict("ok", nontrivial=True, key="rq|" + c.meta["path"] + sx_key(c))
        return Verdict("violation", detail="re-querying the reported path returns %r instead of exactly that node" % (I,), nontrivial=True)


def f_(x):
    return gen.flt(x)


def o_(**kw):
    ks = sorted(kw, key=lambda k: [ord(c) for c in k])
    return ("o",) + tuple((S(k), kw[k]) for k in ks)


V_SCALAR = ["null", ("b", 1), ("b", 0), ("i", 0), ("i", 1), ("i", -1), f_(1.0), f_(1.5), f_(0.1), f_(0.1 + 2**-56),
            f_(1e-20), f_(2e-20), f_(0.0), ("i", MAXI), ("i", -MAXI), f_(float(MAXI)), ("i", 2), f_(2.0), f_(-1.0), f_(1e300),
            S(""), S("a"), S("ab"), S("b"), S("A"), S("\u00e9"), S("\U0001F600"), S("\uffff"), S("1"), S("true"), S("null")]
V_STRUCT = [("a",), ("a", ("i", 1)), ("a", f_(1.0)), ("a", ("i", 1), ("i", 2)), ("a", ("i", 2), ("i", 1)), ("a", ("a", ("i", 1))),
            ("a", ("a", f_(1.0))), ("a", "null"), ("a", S("a")), ("o",), o_(k=("i", 1)), o_(k=f_(1.0)), o_(k=("i", 1), j=("i", 2)),
            o_(j=("i", 2), k=f_(1.0)), o_(k=("a", ("i", 1))), o_(k=("a", f_(1.0))), o_(k="null"), o_(j=("i", 1)), o_(k=o_(k=("i", 0))),
            o_(k=o_(k=f_(0.0)))]
V_ALL = V_SCALAR + V_STRUCT
OPS6 = ["eq", "ne", "lt", "le", "gt", "ge"]


def lit_of(v):
    if v == "null":
        return "null"
    if v[0] == "b":
        return ("bool", v[1])
    if v[0] == "i":
        return ("int", v[1])
    if v[0] == "f":
        return ("flt", v[1], v[2])
    if v[0] == "s":
        return ("str", v)
    return None


def filt(atom):
    return ("q", ("sel", ("filter", ("atom", atom))))


class C04(EvalProp):
    pid = "C04"
    scale = True
    design_ref = "DESIGN.md section 3, C04"
    technique = "Coq proof (induction on JSON values) of the comparison table + exhaustive operand-kind correspondence"
    level_text = ("Coq theorems: for all JSON values on both sides (any nesting), all operand forms (literal, singular query that may "
                  "select nothing, value-typed function result) and all six operators the model of comparison.rs computes the RFC 9535 "
                  "2.3.5.2.2 comparison (C04_table); derived operators, trichotomy for numbers and strings, no ordering across types are "
                  "corollaries. Correspondence: exhaustive table of 51 values x 51 values x 6 operators x operand forms through the crate.")
    level_note = "numbers are compared as binary64 (integers above 2^53 are outside the property's I-JSON domain); string literals with escapes are the known class D7"
    rule = ("exhaustive: all ordered pairs from a 51-value universe (every JSON kind, nested, int/float spellings of one number, "
            "missing members) x 6 operators x forms {@.x op @.y, @.x op literal, literal op @.x, literal op literal, @ op $.k, "
            "function results}; plus random comparisons; non-trivial = RFC selects at least one element; distinct = distinct (AST, document)")
    n_quick = 4000

    def profile(self):
        return gen.Profile(selectors=["filter", "wild", "name"], functions=["length", "count", "value"], filter_depth=1, max_segments=2)

    def extra_cases(self):
        out = []
        # one document holding every ordered pair, plus elements with x or y (or both) missing
        elems = []
        for a in V_ALL:
            for b in V_ALL:
                elems.append(o_(x=a, y=b))
        for a in V_ALL:
            elems.append(o_(x=a))
            elems.append(o_(y=a))
        elems.append(("o",))
        pairs_doc = ("a",) + tuple(elems)
        mk = lambda q, d, m: self.make_case("t", q, d, m)
        x, y = ("sq", "cur", ("n", S("x"))), ("sq", "cur", ("n", S("y")))
        for op in OPS6:
            out.append(mk(filt(("cmp", op, x, y)), pairs_doc, {"table": "query-query", "op": op}))
            out.append(mk(filt(("cmp", op, ("sq", "cur", ("n", S("'x'"))), ("sq", "cur", ("n", S('"y"'))))), pairs_doc, {"table": "query-query-quoted", "op": op}))
        single = ("a",) + tuple(o_(x=a) for a in V_ALL) + (("o",),)
        for op in OPS6:
            for l in V_SCALAR:
                out.append(mk(filt(("cmp", op, x, ("lit", lit_of(l)))), single, {"table": "query-literal", "op": op}))
                out.append(mk(filt(("cmp", op, ("lit", lit_of(l)), x)), single, {"table": "literal-query", "op": op}))
        small = [v for i, v in enumerate(V_SCALAR) if i % 2 == 0]
        for op in OPS6:
            for l in small:
                for r in small:
                    out.append(mk(filt(("cmp", op, ("lit", lit_of(l)), ("lit", lit_of(r)))), ("a", ("i", 0)), {"table": "literal-literal", "op": op}))
        # number grid: every ordered pair of integers and halves/quarters around zero in both representations, and
        # integers around 2^31, 2^32, 2^53 in both representations (mixed int/float arms of the comparison code)
        grid = [("i", k) for k in range(-4, 5)] + [f_(k / 4.0) for k in range(-17, 18)] \
            + [v for b in (2**31, 2**32, 2**52) for k in (-1, 0, 1) for sg in (1, -1) for v in (("i", sg * (b + k)), f_(float(sg * (b + k))), f_(sg * (b + k) + 0.5))]
        gelems = [o_(x=a, y=b) for a in grid for b in grid]
        grid_doc = ("a",) + tuple(gelems)
        for op in OPS6:
            out.append(mk(filt(("cmp", op, x, y)), grid_doc, {"table": "number-grid", "op": op}))
        gsingle = ("a",) + tuple(o_(x=a) for a in grid)
        for op in ("lt", "ge", "eq"):
            for l in grid[:44:3]:
                out.append(mk(filt(("cmp", op, x, ("lit", lit_of(l)))), gsingle, {"table": "grid-literal", "op": op}))
                out.append(mk(filt(("cmp", op, ("lit", lit_of(l)), x)), gsingle, {"table": "literal-grid", "op": op}))
        # current node against a member of the root; function results on either side
        rootdoc = o_(k=("i", 1), vals=("a",) + tuple(V_ALL))
        for op in OPS6:
            q = ("q", ("sel", ("name", S("vals"))), ("sel", ("filter", ("atom", ("cmp", op, ("sq", "cur"), ("sq", "root", ("n", S("k"))))))))
            out.append(mk(q, rootdoc, {"table": "current-root", "op": op}))
            for fn in (("length", ("argt", ("rel", ("sel", ("name", S("x")))))), ("count", ("argt", ("rel", ("sel", ("name", S("x"))), ("sel", "wild")))),
                       ("value", ("argt", ("rel", ("sel", ("name", S("x"))), ("sel", "wild"))))):
                out.append(mk(filt(("cmp", op, ("fn", fn), y)), pairs_doc, {"table": "function-query", "op": op}))
                out.append(mk(filt(("cmp", op, y, ("fn", fn))), pairs_doc, {"table": "query-function", "op": op}))
        # objects whose member names look like quoted or escaped text: equality is on the names as they are
        def om(**kw):
            return o_(**kw)
        def od(d):
            ks = sorted(d, key=lambda k: [ord(c) for c in k])
            return ("o",) + tuple((S(k), d[k]) for k in ks)
        one = ("i", 1)
        objs = [od({"'k'": one}), od({"k": one}), od({"'k'": one, "k": one}), od({"k": one, "z": ("i", 0)}), od({'"k"': one}), od({"'k'": one, "z": ("i", 0)}),
                od({"'": one}), od({"''": one}), od({"": one}), od({"'k": one}), od({"k'": one}), od({"a\\\\b": one}), od({"a\\b": one}), od({"a/b": one}),
                od({"a\\/b": one}), od({" k": one}), od({"k ": one}), od({"k": ("i", 2)}), od({'"k"': one, "k": one}), od({"0": one}), od({"'0'": one}),
                od({"k": od({"'j'": one})}), od({"k": od({"j": one})}), ("a", od({"'k'": one})), ("a", od({"k": one}))]
        # negative fractional floats against integers (a float truncated toward zero lands on the integer above it), both as
        # literals on both sides and against function results of kind integer
        fl = [f_(-0.5), f_(-2.5), f_(-0.25), f_(-1e-9), f_(0.5), f_(2.5), f_(-3.0), f_(2.0)]
        il = [("i", 0), ("i", -2), ("i", -3), ("i", 1), ("i", 2), ("i", 3)]
        lens = ("a",) + tuple(o_(x=v) for v in (("a",), ("a", ("i", 1)), ("a", ("i", 1), ("i", 2)), ("a", ("i", 1), ("i", 2), ("i", 3)), S(""), S("ab"), ("o",), ("i", 5)))
        LX = ("fn", ("length", ("argt", ("rel", ("sel", ("name", S("x")))))))
        CX = ("fn", ("count", ("argt", ("rel", ("sel", ("name", S("x"))), ("sel", "wild")))))
        for op in OPS6:
            for a in fl:
                for b in il:
                    out.append(mk(filt(("cmp", op, ("lit", lit_of(a)), ("lit", lit_of(b)))), ("a", ("i", 0)), {"table": "float-int-literals", "op": op}))
                    out.append(mk(filt(("cmp", op, ("lit", lit_of(b)), ("lit", lit_of(a)))), ("a", ("i", 0)), {"table": "int-float-literals", "op": op}))
                for fnx in (LX, CX):
                    out.append(mk(filt(("cmp", op, fnx, ("lit", lit_of(a)))), lens, {"table": "function-float-literal", "op": op}))
                    out.append(mk(filt(("cmp", op, ("lit", lit_of(a)), fnx)), lens, {"table": "float-literal-function", "op": op}))
        # arrays nested directly in arrays, inner lengths different, one a prefix of the other (and nested in objects, and deeper)
        i1, i2, i3, i0 = ("i", 1), ("i", 2), ("i", 3), ("i", 0)
        nest = [("a", ("a", i1, i2)), ("a", ("a", i1)), ("a", ("a",)), ("a", ("a", i0)), ("a", ("a", i1), ("a", i2)), ("a", ("a", i1, i2), ("a", i3)),
                ("a", ("a", i1), ("a", i2, i3)), ("a", ("a", ("a", i1))), ("a", ("a", ("a", i1, i2))), ("a", ("a",), ("a",)), ("a", i1, ("a", i2)), ("a", i1, ("a", i2, i3)),
                o_(k=("a", ("a", i1, i2))), o_(k=("a", ("a", i1))), ("a", o_(k=("a", i1, i2))), ("a", o_(k=("a", i1))), ("a", ("a", f_(1.0), i2)), ("a", ("a", i1, f_(2.0)), ("a",))]
        nelems = [o_(x=a, y=b) for a in nest for b in nest]
        ndoc2 = ("a",) + tuple(nelems)
        for op in ("eq", "ne", "le", "ge", "lt"):
            out.append(mk(filt(("cmp", op, x, y)), ndoc2, {"table": "nested-arrays", "op": op}))
        oelems = [o_(x=a, y=b) for a in objs for b in objs]
        odoc = ("a",) + tuple(oelems)
        for op in ("eq", "ne"):
            out.append(mk(filt(("cmp", op, x, y)), odoc, {"table": "odd-named-objects", "op": op}))
        return out

    def cases(self):
        out = super().cases()
        ndoc = number_spelling_doc()
        for j, (grp, text) in enumerate(number_spelling_cases()):
            out.append(Case("ns%d" % j, "STR", [S(text), ndoc], {"table": "number-spellings", "query": text}, impl=("E2E", [S(text), ndoc])))
        # subnormal numbers are numbers: as literals (text) and in the document, every operator, both sides
        sdoc = ("a", ("i", 0), f_(0.0), "nz", ("i", 1), ("i", -1), f_(5e-324), f_(-5e-324), f_(1e-320), f_(-1e-320), f_(2e-310), f_(2.2250738585072014e-308), f_(1e-200), f_(-1e-200), S("0"), "null")
        k = 0
        for lit in ("1e-320", "5e-324", "-1e-320", "2e-310", "2.2250738585072014e-308", "0", "1", "-1e-200"):
            for op in ("==", "!=", "<", "<=", ">", ">="):
                for text in ("$[?@ %s %s]" % (op, lit), "$[?%s %s @]" % (lit, op)):
                    out.append(Case("sn%d" % k, "STR", [S(text), sdoc], {"table": "subnormal", "query": text}, impl=("E2E", [S(text), sdoc])))
                    k += 1
        return out

    def known_class(self, c, ans, I, M, R, S_, K):
        if d7_applies(K):
            return "D7-escaped-names"
        return None


class C05(EvalProp):
    pid = "C05"
    scale = True
    design_ref = "DESIGN.md section 3, C05"
    technique = "Coq refinement proof of filter evaluation (mutual induction) + formula/valuation correspondence"
    level_text = ("Coq theorems: the model of Filter::process/process_elem/filter_item, FilterAtom::process and Test::process computes the RFC "
                  "9535 2.3.5 truth value of every logical expression (any nesting of !, &&, ||, parentheses, nested filters) on every current "
                  "node, existence tests are nodelist non-emptiness, @ rebinds at each nesting level and $ is the root; the filter selector keeps "
                  "exactly the children for which it holds, in order. Correspondence: formulas over existence/comparison atoms against documents "
                  "realising the valuations, incl. members whose value is null/false/0/\"\"/[]/{} and filters nested in filter queries. "
                  "C05_string_level_children_in_order: for every expression of the filter tower (any nesting depth) the TEXT `$[?e]`, through "
                  "the generated grammar, parser.rs and the evaluator, keeps exactly the children on which e holds, in order -- precedence of "
                  "&& over || included, since the text is what the theorem starts from.")
    level_note = "string-level theorem covers canonical spelling without function calls/float literals/escapes; the rest of precedence is the E2E stream"
    rule = ("random logical expressions (depth <= 3) over existence tests, negations, comparisons, $-rooted tests and nested filter queries; "
            "documents rich in falsy member values; 60% through query strings; non-trivial = RFC keeps at least one child")

    def profile(self):
        return gen.Profile(selectors=["filter", "filter", "filter", "name", "wild", "idx"], functions=["count", "length"], filter_depth=3,
                           max_segments=2, names=["a", "b", "c"], max_width=4)

    def cases(self):
        # documents biased to falsy values under the tested names
        old = gen.INTS, gen.STRS
        out = super().cases()
        return out

    def extra_cases(self):
        falsy = ["null", ("b", 0), ("i", 0), S(""), ("a",), ("o",), f_(0.0)]
        elems = [o_(a=v) for v in falsy] + [o_(b=("i", 1)), ("o",), ("a",), ("a", o_(a=("i", 1))), ("a", ("a", o_(a="null")))] + falsy
        doc = ("a",) + tuple(elems)
        A = ("atest", ("rel", ("sel", ("name", S("a")))), 0)
        nA = ("atest", ("rel", ("sel", ("name", S("a")))), 1)
        B = ("atest", ("rel", ("sel", ("name", S("b")))), 0)
        cur = ("atest", ("rel",), 0)
        nested = ("atest", ("rel", ("sel", ("filter", ("atom", A)))), 0)
        nested2 = ("atest", ("rel", ("sel", ("filter", ("atom", ("atest", ("rel", ("sel", ("filter", ("atom", A)))), 0))))), 0)
        rooted = ("atest", ("abs", ("sel", ("idx", 0)), ("sel", ("name", S("a")))), 0)
        cnt = ("cmp", "eq", ("fn", ("count", ("argt", ("rel", ("sel", ("filter", ("atom", A))))))), ("lit", ("int", 1)))
        forms = [("atom", A), ("atom", nA), ("atom", cur), ("atom", nested), ("atom", nested2), ("atom", rooted), ("atom", cnt),
                 ("or", ("atom", A), ("atom", B)), ("and", ("atom", A), ("atom", B)),
                 ("or", ("atom", A), ("and", ("atom", B), ("atom", nA))),
                 ("atom", ("afilter", ("or", ("atom", A), ("atom", B)), 1)),
                 ("and", ("atom", ("afilter", ("or", ("atom", A), ("atom", B)), 0)), ("atom", nA)),
                 ("atom", ("afilter", ("atom", ("afilter", ("atom", A), 1)), 1))]
        out = []
        for f in forms:
            out.append(self.make_case("t", ("q", ("sel", ("filter", f))), doc, {"table": "falsy"}))
            out.append(self.make_case("t", ("q", ("desc", ("sel", ("filter", f)))), doc, {"table": "falsy-desc"}))
        return out

    def cases(self):
        out = super().cases()
        # chains whose operands look alike when printed (a.b / ab, a[1] / a1, [1:] / [1:0], different parenthesisations): every
        # operand counts; long chains, every position
        one = ("i", 1)
        docs = ("a", o_(a=o_(b=one)), o_(ab=one), o_(a=o_(b=one), ab=one), o_(a=("a", ("i", 0), one), a1=one), o_(a1=one), o_(a=("a", ("i", 0), one)),
                ("a", one), ("a", one, one), o_(x=one), o_(y=one), o_(z=one), o_(x=one, z=one), o_(y=one, z=one), o_(x=one, y=one, z=one), ("o",),
                o_(a=one, b=one, c=one, d=one), o_(a=one, c=one), o_(b=one, d=one), o_(a=one, b=one), o_(c=one, d=one), o_(a=one, d=one))
        texts = ["$[?@.a.b && @.ab]", "$[?@.ab && @.a.b]", "$[?@.a.b || @.ab]", "$[?@.a[1] == 1 && @.a1 == 1]", "$[?@.a1 == 1 && @.a[1] == 1]",
                 "$[?@.a[1] == 1 || @.a1 == 1]", "$[?@[1:] && @[1:0]]", "$[?@[1:0] || @[1:]]", "$[?@[1:] && @[1:0] && @[0]]",
                 "$[?((@.x || @.y) && @.z) || (@.x || @.y && @.z)]", "$[?(@.x || @.y && @.z) && ((@.x || @.y) && @.z)]",
                 "$[?(@.x || @.y && @.z) || ((@.x || @.y) && @.z)]", "$[?@.a && @.b || @.c && @.d]", "$[?@.a && @.b || @.c && @.d || @.a && @.d]",
                 "$[?!(@.a && @.b) && @.c]", "$[?!(@.a || @.b) || @.c]", "$[?!(@.a && @.b) && !(@.c && @.d) && @.a]", "$[?@.a || @.b && @.c || @.d]",
                 "$[?@.x && @.x]", "$[?@.x || @.x || @.y]", "$[?@.a.b && @.ab && @.a.b]", "$[?@['a.b'] || @.a.b]", "$[?@.a && @.c && @.a && @.d]"]
        for j, text in enumerate(texts):
            out.append(Case("pa%d" % j, "STR", [S(text), docs], {"table": "print-alike-operands", "query": text}, impl=("E2E", [S(text), docs])))
        return out

    def known_class(self, c, ans, I, M, R, S_, K):
        if d7_applies(K):
            return "D7-escaped-names"
        return None


class C14(EvalProp):
    pid = "C14"
    design_ref = "DESIGN.md section 3, C14"
    technique = "Coq proof of the five extension functions against their set-theoretic specification + exhaustive small-array correspondence"
    level_text = ("Coq theorems: the model of extension_custom and of the argument marshalling in test_function.rs::custom computes in/nin/"
                  "any_of/none_of/subset_of exactly as existsb/forallb over the element equality, nin and none_of are the negations, the empty "
                  "array is a subset of anything, and a missing or non-array argument makes the test false. Correspondence: all pairs of arrays "
                  "of length <= 3 over a 6-value universe, non-arrays and missing members, through the crate. C14_string_level_calls: the TEXT of "
                  "a filter calling the five functions goes through the generated grammar, try_new, extension_custom and the evaluator and keeps "
                  "exactly the children on which the set-theoretic reading holds.")
    level_note = "element equality is serde_json's Value == (kind-sensitive numbers), as DESIGN.md C14 states; arguments are literals or singular queries"
    rule = ("exhaustive: (x, L) and (A, B) over arrays of length <= 2 (plus sampled length 3) of a 6-value universe incl. nested and empty, "
            "non-array and missing arguments, for the five functions and their negations; non-trivial = RFC keeps at least one element")
    n_quick = 3000

    def profile(self):
        return gen.Profile(selectors=["filter", "name", "wild"], functions=["length"], custom=True, filter_depth=1, max_segments=2)

    def extra_cases(self):
        U = [("i", 1), ("i", 2), f_(1.0), S("a"), ("a", ("i", 1)), "null"]
        arrays = [("a",)] + [("a", u) for u in U] + [("a", u, v) for u in U for v in U]
        arrays += [("a",) + tuple(self.rng.choice(U) for _ in range(3)) for _ in range(20)]
        nonarr = [("i", 1), S("a"), "null", o_(a=("i", 1))]
        elems = []
        for A in arrays[:20] + self.rng.sample(arrays, 15):
            for B in arrays[:12] + self.rng.sample(arrays, 10):
                elems.append(o_(x=A, y=B))
        for u in U + nonarr:
            for B in arrays[:12] + nonarr:
                elems.append(o_(x=u, y=B))
        for B in arrays[:8]:
            elems.append(o_(y=B))
            elems.append(o_(x=B))
        # homogeneous arrays with repeated elements, kind by kind (a per-kind fast path - sorted strings, integer sets - must
        # still be set inclusion, not multiset inclusion)
        import itertools as _it
        def upto3(K):
            return [("a",) + t for n in range(0, 4) for t in _it.product(K, repeat=n)]
        for K in ([S("t1"), S("t2"), S("t3")], [("i", 1), ("i", 2), ("i", 3)]):
            arrs = upto3(K)
            for A in arrs:
                for B in (arrs if self.tier != "quick" else [arrs[i] for i in sorted(self.rng.sample(range(len(arrs)), 14))] + arrs[:4]):
                    elems.append(o_(x=A, y=B))
        for K in ([("b", 1), ("b", 0)], [("a", ("i", 1)), ("a", ("i", 2))], [o_(a=("i", 1)), o_(a=("i", 2))], [S(""), S("a"), S("\u00e9")], [f_(0.5), f_(1.5)],
                  [f_(0.0), "nz"], [("a", f_(0.0)), ("a", "nz")], [o_(z=f_(0.0)), o_(z="nz")]):
            arrs = upto3(K)
            for A in arrs[:15]:
                for B in arrs[:15]:
                    elems.append(o_(x=A, y=B))
        # long arrays (8 to 12 elements) mixing integers, the strings that spell them, floats of the same value, booleans and null
        ints_ = ("a",) + tuple(("i", i) for i in range(1, 10))
        strs_ = ("a",) + tuple(S(str(i)) for i in range(1, 9))
        flts_ = ("a",) + tuple(f_(float(i)) for i in range(1, 10))
        mixed_ = ("a", S("7"), S("x"), S("1"), S("true"), S("null"), S("1.0"), S("-1"), S("0"), S(""), S("12"))
        misc_ = ("a", ("i", 12), ("b", 1), "null", f_(1.0), ("i", -1), ("i", 0), S("y"), ("i", 7), ("i", 100), ("a", ("i", 7)), o_(k=("i", 7)))
        longs = [ints_, strs_, flts_, mixed_, misc_, ints_[:9] + (S("9"),), strs_ + (("i", 3),)]
        for A in longs:
            for B in longs:
                elems.append(o_(x=A, y=B))
        doc = o_(list=("a", ("i", 1), S("a"), ("a", ("i", 1))), elems=("a",) + tuple(elems))
        x = ("argt", ("rel", ("sel", ("name", S("x")))))
        y = ("argt", ("rel", ("sel", ("name", S("y")))))
        rl = ("argt", ("abs", ("sel", ("name", S("list")))))
        out = []
        for fn in ["in", "nin", "none_of", "any_of", "subset_of"]:
            for neg in (0, 1):
                for args in ((x, y), (x, rl), (y, x), (("argl", ("int", 1)), y), (x,), ()):
                    q = ("q", ("sel", ("name", S("elems"))), ("sel", ("filter", ("atom", ("atest", ("tfn", ("custom", S(fn)) + args), neg)))))
                    out.append(self.make_case("t", q, doc, {"fn": fn, "neg": neg, "arity": len(args)}))
        return out

    def known_class(self, c, ans, I, M, R, S_, K):
        if d7_applies(K):
            return "D7-escaped-names"
        return None


class C10(EvalProp):
    pid = "C10"
    scale = True
    design_ref = "DESIGN.md section 3, C10"
    technique = "Coq proofs of length/count/value and of the regex matcher against a denotational I-Regexp semantics + correspondence"
    level_text = ("Coq theorems: the model of length/count/value in test_function.rs computes RFC 9535 2.4.4-2.4.6 for every argument form a "
                  "well-typed call can have (length of strings in scalar values, arrays, objects; count of a nodelist incl. 0; value of a "
                  "singleton nodelist); results flow into comparisons as ordinary values. match/search: model of prepare_regex plus an "
                  "executable matcher for the modelled dialect, proved against the denotational semantics. C10_string_level_calls: the TEXT of a "
                  "filter that calls the five functions (every well-typed combination of literal, query and nested-call arguments) goes through "
                  "the generated grammar, TestFunction::try_new and the evaluator and keeps exactly the children the RFC keeps. Correspondence through the crate.")
    level_note = "the regex crate is external: modelled on a stated dialect and validated by correspondence; patterns with escapes are the known class D14"
    rule = ("length/count/value over argument kinds x node counts 0/1/2+; match/search over enumerated patterns x subjects; "
            "non-trivial = RFC keeps at least one element; plus patterns with a literal backslash (four backslashes in the query text) and counted repetitions of Unicode-aware atoms above a thousand on short subjects; "
            "patterns outside the modelled dialect (Unicode categories, shorthand classes, flags, lazy quantifiers) are compared with the regex crate applied directly by the harness (kind RX: validates the glue only)")
    n_quick = 6000

    def profile(self):
        return gen.Profile(selectors=["filter", "name", "wild"], functions=["length", "count", "value"], regex=True, filter_depth=2, max_segments=2)

    def regex_cases(self):
        """enumerated small patterns x all subjects of length <= 3 over {a,b,c} plus special subjects"""
        import itertools
        atoms = ["a", "b", ".", "[ab]", "[^a]", "[a-c]", "(a|b)", "(ab)", "c"]
        quants = ["", "*", "+", "?", "{2}", "{1,2}", "{2,}"]
        pats = set()
        for x in atoms:
            for qx in quants:
                pats.add(x + qx)
                for y in atoms[:5]:
                    pats.add(x + qx + y)
                    pats.add(x + qx + "|" + y)
        pats |= {"", "^a", "a$", "^a$", "^a|b$", "a|", "|a", "()", "(a|)", "a)(?:b", "(", ")", "[", "a**", "a{", "a{2,1}", "[b-a]", "(?:a|b)c",
                 "^", "$", "a^", "$a", "(^a)", "a|b|c", "((a))", "[.]", "[ab][ab]", ".*", ".+", "..", "a.c", "a\\\\.c", "a\\\\", "\\\\(a\\\\)", "[\\\\]]", "a\\nb",
                 "[(]|x", "f[(]|x", "[)]x|y", "[|]", "a[(|)]b|c", "f\\\\(|x", "x|f\\\\(", "\\\\)|a", "(a[(]|b)c", "[(][)]|ab"}
        # a literal backslash in the pattern (four backslashes in the query text: the crate halves doubled backslashes once), and
        # counted repetitions whose compiled program is large (Unicode-aware `.` and negated classes repeated a thousand times)
        BIG = ["a\\\\\\\\b", "\\\\\\\\", "[\\\\\\\\/]b", "a\\\\\\\\\\\\."]
        HUGE = [".{0,1200}", "[^>]{1,3000}", ".{0,1200}c"]
        pats |= set(BIG)
        IDIOM = [".*b.*", ".*a.*", ".*ab.*", ".*c.*", "a.*", ".*b", ".*\u00e9.*", ".*b.*|x", "(.*b.*)", ".*b.*.*"]
        # groups at both ends with an alternation between them, and deep nesting of groups and quantifiers
        GROUPS = ["(a)|(b)", "(ab)|c|(ab)", "(a)+|x(b)", "(a)|(b)*", "(a)(b)", "(a)|b", "(a(b(c)*)*)*", "(a(b(c(a(b(c)*)*)*)*)*)*", "(a(b(c(a(b(c)?)?)?)?)?)?",
                  "((((((((((a)*)*)*)*)*)*)*)*)*)*", "a(b(c(a(b(c|a)|b)|c)|a)|b)", "(((a((a|b)*c)+b)?c)*a)+", "((((((((((a))))))))))"]
        pats |= set(IDIOM) | set(GROUPS)
        subs = [""] + ["".join(t) for n in (1, 2, 3) for t in itertools.product("abc", repeat=n)] + ["b\n", "\nb", "xb\ny", "a\nb\nc", "ab\n", "\u00e9\n", "a\u2028b", "a\rb", "a\nb", "a.c", "(a)", "abab", "aab", "bbbb", "a\\", "]", "\r", "\n", "é", "\U0001F600", "ab\U0001F600",
                                                                                                  "f(1)", "max", "f(", "x", "(", ")", "|", "(x", "f(x", "a(b", "a|b", ")x", "y", "()", "ab",
                                                                                                  "a\\b", "\\", "a\\", "\\b", "a/b", "a\\."]
        doc = ("a",) + tuple(S(x) for x in subs) + (("i", 1), "null", ("a", S("a")))
        out = []
        pats = sorted(pats)
        if self.tier == "quick":
            pats = self.rng.sample(pats, 160) + ["^a|b$", "a)(?:b", "a.c", ".", "a|", "", "(a|b)c", "a\\\\.c", "a\\\\", "\\\\(a\\\\)", "[\\\\]]", "a\\nb",
                                                 "[(]|x", "f[(]|x", "[)]x|y", "[|]", "a[(|)]b|c", "f\\\\(|x", "x|f\\\\(", "\\\\)|a", "(a[(]|b)c", "[(][)]|ab"] + BIG + IDIOM + GROUPS
        for p in pats:
            for fn in ("match", "search"):
                q = ("q", ("sel", ("filter", ("atom", ("atest", ("tfn", (fn, ("argt", ("rel",)), ("argl", ("str", S(p))))), 0)))))
                out.append(self.make_case("t", q, doc, {"fn": fn, "pattern": p}))
        hdoc = ("a", S("abc"), S(""), S(">"), S("bbbbc"), ("i", 1))
        for p in HUGE:
            for fn in ("match", "search"):
                q = ("q", ("sel", ("filter", ("atom", ("atest", ("tfn", (fn, ("argt", ("rel",)), ("argl", ("str", S(p))))), 0)))))
                out.append(self.make_case("t", q, hdoc, {"fn": fn, "pattern": p, "table": "large-repetition"}))
        # patterns the Coq model of the dialect does not cover (Unicode categories, shorthand classes, flags, non-capturing groups):
        # the crate's glue against the regex crate applied directly by the harness (kind RX; the model side is not involved)
        BSL = chr(92)
        rxp = ["%sp{Lu}?b", "%sP{Nd}?1", "-%sp{Lu}?b", "(%sp{Ll}?)", "%sp{Lu}*", "%sp{Lu}+", "%sp{Lu}{2}", "%sp{L}+%sd", "%sd+", "%sw+", "%ss", "[%sd]+", "a%sp{Lu}{2}", "[%sp{Lu}%sd]?x",
               "%sp{Lu}?", "%sp{Greek}+", "[^%sp{Lu}]b", "%sP{Lu}?%sp{Lu}"]
        rxp = [t.replace("%s", BSL) for t in rxp] + ["(?:a|b)c", "a{2}?", "a*?b", "a+?", "[[:alpha:]]+", "(?i)ab", "a|b|", "x*", "(a)|(b)", "(a(b(c(a(b(c)*)*)*)*)*)*"]
        rsub = ("a",) + tuple(S(x) for x in ["Ab", "b", "ab", "x1", "1", "a-Zb", "-b", "", "ABC", "AB", "A", "a1", "12", "abc", " ", "a b", "aXYb", "x", "Ax", "1x", "\u0391\u0392", "\u00c9b", "\u00e9b",
                                                "ac", "bc", "aa", "aab", "abcabc", "AB1", "B"]) + (("i", 1), "null")
        for p in rxp:
            out.append(Case("rx", "RX", [S(p), rsub], {"pattern": p, "table": "regex-crate-oracle"}))
        # the pattern taken from the document, and non-string arguments
        pd = o_(regex=S("a.c"), vals=("a", S("abc"), S("a.c"), S("ac"), ("i", 3)))
        for fn in ("match", "search"):
            q = ("q", ("sel", ("name", S("vals"))), ("sel", ("filter", ("atom", ("atest", ("tfn", (fn, ("argt", ("rel",)), ("argt", ("abs", ("sel", ("name", S("regex"))))))), 0)))))
            out.append(self.make_case("t", q, pd, {"fn": fn, "pattern": "from-document"}))
            for bad in (("argl", ("int", 1)), ("argl", "null"), ("argt", ("abs", ("sel", ("name", S("missing")))))):
                q = ("q", ("sel", ("name", S("vals"))), ("sel", ("filter", ("atom", ("atest", ("tfn", (fn, ("argt", ("rel",)), bad)), 0)))))
                out.append(self.make_case("t", q, pd, {"fn": fn, "pattern": "not-a-string"}))
        return out

    def extra_cases(self):
        return self.value_fn_cases() + self.regex_cases()

    def judge(self, c, ans):
        if c.kind == "RX":
            I = ans.get("I") or ["MISSING"]
            if I[0] == "OK":
                return Verdict("ok", nontrivial=True, key=sx_key(c))
            return Verdict("violation", detail="match/search of the crate differ from the regex crate applied directly on pattern %r: %r" % (c.meta.get("pattern"), I), nontrivial=True, key=sx_key(c))
        return EvalProp.judge(self, c, ans)

    def value_fn_cases(self):
        vals = V_ALL
        doc = ("a",) + tuple(o_(x=v) for v in vals) + (("o",), o_(x=S("\U0001F600\u00e9a")), o_(x=("a", ("i", 1), ("i", 2), ("i", 3))))
        out = []
        X = ("argt", ("rel", ("sel", ("name", S("x")))))
        XS = ("argt", ("rel", ("sel", ("name", S("x"))), ("sel", "wild")))
        XD = ("argt", ("rel", ("desc", ("sel", "wild"))))
        for n in range(0, 5):
            for op in OPS6:
                out.append(self.make_case("t", filt(("cmp", op, ("fn", ("length", X)), ("lit", ("int", n)))), doc, {"fn": "length"}))
                out.append(self.make_case("t", filt(("cmp", op, ("fn", ("count", XS)), ("lit", ("int", n)))), doc, {"fn": "count"}))
                out.append(self.make_case("t", filt(("cmp", op, ("fn", ("count", XD)), ("lit", ("int", n)))), doc, {"fn": "count"}))
                out.append(self.make_case("t", filt(("cmp", op, ("fn", ("value", XS)), ("lit", ("int", n)))), doc, {"fn": "value"}))
                out.append(self.make_case("t", filt(("cmp", op, ("fn", ("length", ("argt", ("tfn", ("value", XS))))), ("lit", ("int", n)))), doc, {"fn": "length-value"}))
        for l in V_SCALAR:
            out.append(self.make_case("t", filt(("cmp", "eq", ("fn", ("length", ("argl", lit_of(l)))), ("lit", ("int", 1)))), ("a", ("i", 0)), {"fn": "length-lit"}))
        # value() of a nodelist whose several head nodes are narrowed to exactly one (or none, or two) by trailing name / index steps
        vdoc = ("a", o_(x=o_(v=("i", 1)), y=o_(w=("i", 2))), o_(x=o_(v=("i", 1)), y=o_(v=("i", 2))), o_(x=o_(w=("i", 1))), ("a", ("a", ("i", 1)), ("a", ("i", 2), ("i", 1)), ("i", 3)),
                ("a", o_(k=S("x"), v=("i", 1)), o_(k=S("y"), v=("i", 9))), ("a", ("i", 5)), ("o",))
        vargs = [("rel", ("sel", "wild"), ("sel", ("name", S("v")))), ("rel", ("sel", "wild"), ("sel", ("idx", 1))), ("rel", ("sel", ("slice", 1, None, None)), ("sel", ("idx", 1))),
                 ("rel", ("sel", ("filter", ("atom", ("cmp", "eq", ("sq", "cur", ("n", S("k"))), ("lit", ("str", S("x"))))))), ("sel", ("name", S("v")))),
                 ("rel", ("desc", ("sel", ("name", S("v"))))), ("rel", ("sel", "wild"), ("sel", "wild")), ("rel", ("sel", "wild"), ("sel", ("idx", 0)))]
        for va in vargs:
            for n_ in (1, 2, 9):
                for op in ("eq", "ne"):
                    out.append(self.make_case("t", filt(("cmp", op, ("fn", ("value", ("argt", va))), ("lit", ("int", n_)))), vdoc, {"fn": "value-narrowed"}))
            out.append(self.make_case("t", filt(("cmp", "eq", ("fn", ("value", ("argt", va))), ("sq", "cur", ("n", S("missing"))))), vdoc, {"fn": "value-narrowed-nothing"}))
            for n_ in (0, 1, 2, 3):
                out.append(self.make_case("t", filt(("cmp", "eq", ("fn", ("count", ("argt", va))), ("lit", ("int", n_)))), vdoc, {"fn": "count-narrowed"}))
        # arguments that reach their node through a negative index (from @ and from $), alone and after names
        ndoc = ("a", ("a", S("ru"), S("en"), S("rust")), ("a", S("x")), ("a",), o_(tags=("a", S("a"), S("ru")), k=("a", ("a", ("i", 1), ("i", 2)))), S("str"), ("a", ("a", ("i", 1)), ("a", ("i", 1), ("i", 2), ("i", 3))))
        for idx in (-1, -2, -3, 0, 1):
            A1 = ("argt", ("rel", ("sel", ("idx", idx))))
            A2 = ("argt", ("rel", ("sel", ("name", S("tags"))), ("sel", ("idx", idx))))
            A3 = ("argt", ("rel", ("sel", ("idx", idx)), ("sel", ("idx", -1))))
            for arg in (A1, A2, A3):
                for n in range(0, 5):
                    out.append(self.make_case("t", filt(("cmp", "eq", ("fn", ("length", arg)), ("lit", ("int", n)))), ndoc, {"fn": "length-neg-index"}))
                    out.append(self.make_case("t", filt(("cmp", "eq", ("fn", ("count", arg)), ("lit", ("int", n)))), ndoc, {"fn": "count-neg-index"}))
                out.append(self.make_case("t", filt(("cmp", "eq", ("fn", ("value", arg)), ("lit", ("str", S("ru"))))), ndoc, {"fn": "value-neg-index"}))
                for fn in ("match", "search"):
                    q = ("q", ("sel", ("filter", ("atom", ("atest", ("tfn", (fn, arg, ("argl", ("str", S("ru.*"))))), 0)))))
                    out.append(self.make_case("t", q, ndoc, {"fn": fn + "-neg-index"}))
        # nodelists in which the same node occurs several times: count() counts nodes, not locations; value() needs exactly one node
        dup_doc = ("a", ("a",), ("a", ("i", 7)), ("a", ("i", 1), ("i", 2)), ("a", ("i", 1), ("i", 2), ("i", 3)), o_(a=("i", 1)), o_(a=("i", 1), b=("i", 2)),
                   ("a", ("a", ("i", 1)), ("a", ("i", 2))), ("i", 5))
        dup_args = [("sels", ("idx", 0), ("idx", 0)), ("sels", ("idx", 0), ("idx", -1)), ("sels", ("slice", 0, 2, None), ("slice", 1, 3, None)),
                    ("sels", "wild", ("idx", 0)), ("sels", ("name", S("'a'")), ("name", S("'a'"))), ("sels", "wild", "wild"),
                    ("sels", ("slice", None, None, None), ("slice", None, None, -1)), ("sels", ("name", S("'a'")), "wild")]
        for sels in dup_args:
            for arg in (("argt", ("rel", sels)), ("argt", ("rel", ("desc", sels))), ("argt", ("rel", ("sel", "wild"), sels))):
                for n in range(0, 7):
                    out.append(self.make_case("t", filt(("cmp", "eq", ("fn", ("count", arg)), ("lit", ("int", n)))), dup_doc, {"fn": "count-dups"}))
                for op in ("eq", "ne"):
                    out.append(self.make_case("t", filt(("cmp", op, ("fn", ("value", arg)), ("lit", ("int", 1)))), dup_doc, {"fn": "value-dups"}))
                    out.append(self.make_case("t", filt(("cmp", op, ("fn", ("value", arg)), ("sq", "cur", ("n", S("missing"))))), dup_doc, {"fn": "value-dups-nothing"}))
        return out

    def known_class(self, c, ans, I, M, R, S_, K):
        if d7_applies(K):
            return "D7-escaped-names"
        return None


# ======================================================================================
# parser properties
# ======================================================================================
def fancy_ast(rng, t, p_name=0.5, p_num=0.6):
    """respell names, string literals and numbers of an AST with the full variety the RFC allows
    (escapes incl. hex case and surrogate pairs, number formats); the denotation is unchanged"""
    if not isinstance(t, tuple) or not t:
        return t
    if t[0] == "name":
        raw = unS(t[1])
        if raw[:1] in ("'", '"') and rng.random() < p_name:
            inner = raw[1:-1]
            if "\\" not in inner:
                return ("name", S(gen.fancy_name(rng, inner)))
        return t
    if t[0] == "n" and len(t) == 2 and isinstance(t[1], tuple):
        raw = unS(t[1])
        if raw[:1] in ("'", '"') and rng.random() < p_name and "\\" not in raw:
            return ("n", S(gen.fancy_name(rng, raw[1:-1])))
        return t
    if t[0] in ("int", "flt") and rng.random() < p_num:
        return ("rawnum", rng.choice(gen.NUM_SPELLINGS))
    if t[0] == "str" and rng.random() < p_name:
        body = unS(t[1])
        if "\\" not in body and "'" not in body and '"' not in body:
            q = "'" if rng.random() < 0.5 else '"'
            return ("rawstr", q + gen.fancy_body(rng, body, q) + q)
        return t
    if t[0] == "s":
        return t
    return tuple(fancy_ast(rng, x, p_name, p_num) for x in t)


def same_ast(a, b):
    from .sx import parse, canon
    try:
        return canon(parse(a)) == canon(parse(b))
    except Exception:
        return False


INF = "(flt inf)"


class ParseProp(PropCheck):
    """strings through parse_json_path; the extracted model of the parser (generated grammar +
    Build.v) and the RFC reference recogniser (Concrete.v) answer for the same string"""
    n_quick = 12000
    n_thorough = 400000

    def sentences(self, n):
        """(text, meta) of sentences intended to be valid"""
        prof = gen.Profile(odd_names=True, hostile_names=True, regex=True, max_segments=3, filter_depth=2)
        g = gen.Gen(self.rng, prof)
        out = []
        while len(out) < n:
            q = g.query()
            if not (gen.parser_shaped(q) and gen.valid_ast(q)):
                continue
            q2 = fancy_ast(self.rng, q)
            ly = gen.Layout(self.rng, blank=self.rng.choice([0.0, 0.0, 0.2, 0.6]))
            try:
                text = gen.render(q2, ly)
            except Exception:
                continue
            out.append((text, {"kind": "render"}))
        return out

    def fixed_sentences(self):
        return []

    def mk(self, cid, text, meta):
        return Case(cid, "PARSE", [S(text)], dict(meta, query=text))

    def template_cases(self):
        """the deterministic combinatorial streams (vlib/templates.py): blank-space slot sweep in every context and the
        function typing matrix; the RFC recogniser decides which property judges each sentence"""
        from . import templates
        out = []
        for i, (text, meta) in enumerate(templates.slot_sweep(self.tier == "quick")):
            out.append(self.mk("ts%d" % i, text, meta))
        for i, (text, meta) in enumerate(templates.typing_matrix()):
            out.append(self.mk("tt%d" % i, text, meta))
        return out

    def verdict_common(self, c, ans):
        I, M, R = ans.get("I"), ans.get("M"), ans.get("R")
        if not I or not M or not R:
            return Verdict("violation", detail="missing answer: %r" % ans)
        if I[0] not in ("OK", "ERR"):
            return Verdict("violation", detail="the parser answered %s (no panic, abort or hang is allowed)" % I[0], nontrivial=True, key=c.meta["query"])
        if M[0] in ("OUTOFFUEL", "BADCASE", "STACK", "UNKNOWN"):
            return Verdict("violation", detail="parser model could not answer: %r" % (M,), key=c.meta["query"])
        return None

    def impl_matches_model(self, I, M):
        if I[0] == "ERR":
            return M[0] == "ERR"
        if M[0] == "INF":
            return INF in I[1]
        return M[0] == "OK" and same_ast(I[1], M[1])


class C06(ParseProp):
    pid = "C06"
    design_ref = "DESIGN.md section 3, C06"
    technique = "grammar translated to Coq on every run + Coq theorems on the parser model + differential run against an RFC reference recogniser"
    level_text = ("The pest grammar is translated into a Coq deep embedding on every run; the parser model (Peg.v interpreter over it + Build.v, the "
                  "hand model of parser.rs) is extracted and run against the crate on every generated sentence, together with an independent "
                  "reference recogniser of the RFC 9535 ABNF + validity rules written in Coq (Concrete.v). Coq theorems: Build accepts every "
                  "well-typed standard function call (C06_typing_partial); the whole pipeline accepts queries WITH filters nested to any depth (existence tests, comparisons of singular "
                  "queries, int/string/bool/null literals and well-typed calls of length/count/value/match/search, !, parentheses, &&, ||; C06_with_filters_partial) and the entire filter-free sublanguage in canonical "
                  "spelling -- any number of child/descendant segments, bracketed unions of quoted names, wildcards, indices and slices with any "
                  "subset of their parts, shorthand names, any integers of the I-JSON range -- and every Normalized Path, and reads each as the "
                  "right AST, also when written with any optional blank space at every S position (C06_filter_free_partial, "
                  "C06_filter_free_blanks_partial, C06_normalized_paths_partial: the grammar of this run executed symbolically by proved "
                  "rules for the PEG interpreter, every abandoned alternative included, then the model of parser.rs). The whole-language acceptance "
                  "theorem (every RFC sentence is accepted) is NOT proved: that part rests on the differential run and is named partial. C06_every_string_as_name/_literal_partial: every RFC 9535 string (both quote styles, all escapes, upper/lower-case hex, surrogate pairs), of any length, is accepted as a name selector and as a comparison literal and read as itself. C06_every_number_as_literal_partial: every number literal with a fraction or an exponent (all 28 shapes of integer part x fraction x exponent, any digits) is accepted and read as the nearest binary64.")
    level_note = "whole-language round trip not proved (partial); rendered sentences cover all layout choices, escapes, number formats; pest runtime modelled"
    rule = ("sentences rendered from random well-typed ASTs under random layouts (blank space at every S, quote style, every escape form incl. "
            "hex case and surrogate pairs, number spellings, shorthand/bracket), plus fixed RFC examples; a sentence counts when the reference "
            "recogniser says VALID; observable = accept/reject and the AST; non-trivial = VALID; distinct = distinct strings")

    def fixed_sentences(self):
        return ["$", "$.store.book[*].author", "$..author", "$.store.*", "$.store..price", "$..book[2]", "$..book[-1]", "$..book[0,1]", "$..book[:2]",
                "$..book[?@.isbn]", "$..book[?@.price<10]", "$..*", "$[?@.a==1e999]", "$[?@.a==9007199254740992]", "$[?@.a==-9007199254740993]",
                "$[?@.a==123456789012345678901234567890]", "$['\\u263a']", "$['\\u263A']", "$['\\ud83d\\ude00']", "$['\\uD83D\\uDE00']", "$['\\udbff\\udfff']", "$['\\uDBFF\\uDFFF']", "$['\\udaff\\udc00']",
                "$['\\udAfF\\uDc00']", "$[\"\\udb00\\udd00\"]", "$['\\ud800\\udc00']", "$[?@.a=='\\udbc0\\udfff']", "$['\\ud7ff\\ue000\\uffff']", "$[\"\\\"\"]", "$['\u263a']",
                "$.\u2028", "$.a\u00a0", "$[?length(@.a)>=2]", "$[?count(@.*)==1]", "$[?match(@.a,'x.*')]", "$[?search(@.a,\"[a-c]\")]",
                "$[?value(@..a)==1]", "$[?@.a==-0]", "$[?@.a==-0.0]", "$[?@.a==0e0]", "$[?@.a==1E-2]", "$[ 'a' ]", "$[ 0 : 1 : 2 ]", "$[::]", "$[:]", "$[::-1]",
                "$[?(@.a)]", "$[?!(@.a)]", "$[?! @.a]", "$[?!\n@.a]", "$[? @.a && @.b || @.c ]", "$[?@['a'][0].b==$.x[1]]", "$[?@ == 'it\\'s']",
                "$[?length(value(@.a))==1]", "$[?match(value(@.a), 'a')]", "$[?count(@..*)>2]", "$ .a", "$\t[0]", "$..[?@.a]", "$..['a','b']"]

    def cases(self):
        n = self.n_quick if self.tier == "quick" else self.n_thorough
        out = []
        for i, (text, meta) in enumerate(self.sentences(n)):
            out.append(self.mk("r%d" % i, text, meta))
        for j, text in enumerate(self.fixed_sentences()):
            out.append(self.mk("f%d" % j, text, {"kind": "fixed"}))
        out.extend(self.template_cases())
        return out

    def judge(self, c, ans):
        v = self.verdict_common(c, ans)
        if v:
            return v
        I, M, R = ans["I"], ans["M"], ans["R"]
        key = c.meta["query"]
        self.count("rfc_" + R[0])
        if c.meta.get("kind") in ("slots", "typing"):
            self.count("%s_%s_%s" % (c.meta["kind"], c.meta.get("slots", c.meta.get("use")), R[0]))
        if R[0] != "VALID":
            return Verdict("ok", detail="not a valid sentence: C07 judges it")
        if I[0] == "OK":
            if same_ast(I[1], R[1]) or (INF in I[1]):
                if not self.impl_matches_model(I, M):
                    return Verdict("stale", nontrivial=True, key=key)
                return Verdict("ok", nontrivial=True, key=key)
            return Verdict("violation", detail="accepted, but read as a different query: %s instead of %s" % (I[1], R[1]), nontrivial=True, key=key)
        # rejected although valid
        if self.impl_matches_model(I, M):
            cls = self.known_reject_class(c, R)
            if cls:
                self.count("known_" + cls)
                return Verdict("known", cls=cls, detail="valid sentence rejected: %r" % key, nontrivial=True, key=key)
            return Verdict("violation", detail="a valid RFC 9535 query is rejected (by the parser and by its model): %r" % key, nontrivial=True, key=key)
        return Verdict("violation", detail="a valid RFC 9535 query is rejected: %r" % key, nontrivial=True, key=key)

    def known_reject_class(self, c, R):
        import re
        # an integer literal of a comparison outside +-(2^53-1): parse_number reports "out of bounds"
        from .sx import parse
        def ints(t):
            if isinstance(t, tuple):
                if len(t) == 2 and t[0] == "int" and isinstance(t[1], int):
                    yield t[1]
                for x in t[1:]:
                    yield from ints(x)
        try:
            if any(abs(z) > MAXI for z in ints(parse(R[1]))):
                return "D23-int-literal-range"
        except Exception:
            pass
        return None


class C07(ParseProp):
    pid = "C07"
    design_ref = "DESIGN.md section 3, C07"
    technique = "grammar translated to Coq on every run + Coq theorems for all inputs (accepted => well-typed, integers in range, no control character; shape of every token of the pair tree by a sub-derivation theorem) + 34 rejection classes + mutation-based differential run against an RFC reference recogniser"
    level_text = ("Coq theorems over the parser model: every query Build constructs is well-typed in the sense of RFC 9535 2.4.3 unless it calls an "
                  "extension function, and all its index/slice/singular-query integers are within the I-JSON range (C07_typing, C07_int_range: "
                  "induction over Build's recursion). The grammar is translated to Coq on every run; single-token edits of valid sentences and "
                  "arbitrary strings are run through the crate, its extracted model and the independent RFC recogniser (Concrete.v). "
                  "Rejection is proved for 33 classes of strings (incl. every ill-typed call of the five functions in $[?f]), each for all its members: no root, bad continuation, blank space before or "
                  "after the query, leading zeros, -0, +, fraction in an index, an index outside the I-JSON range (every such integer), "
                  "empty brackets/filter, unquoted name, bad escape, control character, half operators, missing operand, upper-case literals, "
                  "blank space after . / .. / a function name (accepted by the grammar, refused by parser.rs) and more (RejectFacts/RejectMore/RejectRange/RejectBlank: the grammar of the run executed on a fixed prefix with the rest symbolic). "
                  "For EVERY input string: an accepted query contains no control character other than TAB/LF/CR, i.e. such a character anywhere in "
                  "the input is rejected (C07_control_char_anywhere_rejected: PegAlpha.v, a generic theorem on what a successful match consumes, instantiated on the grammar of the run). "
                  "For EVERY input and EVERY token of the pair tree the matcher hands to parser.rs (PegTree.run_subtree: each pair is witnessed by a successful run of its own rule over its own span): "
                  "an int token is a canonical integer (no leading zero, no -0) and, when parse::<i64> reads it as z, it IS the decimal text of z; a string token is a quote, a body without characters below U+0020, and the same quote; "
                  "shorthand and function names, number literals, true/false/null, comparison operators and the segments of singular queries have exactly their RFC shapes (TokenFacts/TokenMore/TokenSeg/TokenOps/TokenStr/IntCanon). "
                  "The whole-language rejection theorem is NOT proved (partial).")
    level_note = "whole-language inversion not proved (partial); the reference recogniser is a human transcription of the ABNF; extension-function calls are outside the property"
    rule = ("every case is a single-token edit (delete/insert/substitute/swap/duplicate a character, blank space anywhere, digit edits around 0, "
            "+-2^53 and the i64 limits, case flips, stray closers) of a rendered valid sentence, or an arbitrary string; a case counts when the "
            "reference recogniser says INVALID or ILLTYPED; non-trivial = the mutant differs from every valid sentence seen; distinct strings")

    def cases(self):
        n = self.n_quick if self.tier == "quick" else self.n_thorough
        base = self.sentences(max(200, n // 6))
        out = []
        i = 0
        while len(out) < n:
            text, _ = base[i % len(base)]
            m = gen.mutate(self.rng, text)
            if self.rng.random() < 0.15:
                m = gen.mutate(self.rng, m)
            out.append(self.mk("m%d" % i, m, {"kind": "mutant", "of": text}))
            i += 1
        fixed = ["$.a b", "$[?@.a in 1]", "$[?fo o(@)]", "$[?@['a\tb']==1]", "$[?@[ 'a' ]==1]", "$[?@. a==1]", "$[01]", "$[-0]", "$[9007199254740992]",
                 "$[?@[9007199254740992]==1]", "$[?length(@.a)]", "$[?length(@.*)==1]", "$[?match(@.*,'a')]", "$[?count(length(@))==1]", "$[?value(1)==1]",
                 "$[?count(1)==1]", "$[?length(@.a,@.b)==1]", "$[?match(@.a)]", "$[?@.*==1]", "$[?@..a==1]", "$[?@[0,1]==1]", "$[?@[0:1]==1]", "$[?1]",
                 "$[?'a']", "$[?true]", "$[?@.a==match(@.b,'a')]", "$[?match(@.a,'a')==true]", " $", "$ ", "$\n", "", "$$", "@", "$.", "$..", "$...a", "$[", "$]",
                 "$[0", "$['a\"]", "$['\\x']", "$['\\u12']", "$['\\ud83d']", "$['\\ude00']", "$['\\ud83d\\u0041']", "$[1:2:3:4]", "$[?@.a=1]", "$[?@.a===1]", "$[?@.a<>1]",
                 "$[?@.a==1 &&]", "$[?@.a & @.b]", "$[?@.a | @.b]", "$[?!]", "$[?()]", "$[?(@.a]", "$[?@.a)]", "$.1", "$.-a", "$.a-b", "$['a',]", "$[,'a']", "$[*,]",
                 "$[?@.a==TRUE]", "$[?@.a==Null]", "$[?@.a==1.]", "$[?@.a==.5]", "$[?@.a==1e]", "$[?@.a==+1]", "$[?@.a==01]", "$[?@.a==0x10]", "$[?length (@.a)==1]",
                 "$[?Length(@.a)==1]", "$[?_f(@.a)]", "$[?1f(@.a)]", "$.a.\u0000", "$['\u0000']", "$['\u001f']", "$[\"\u0007\"]", "$[?@.a=='\u0001']", "$. a", "$.. a", "$..\ta"]
        vfn = ["length(@.a)", "count(@.*)", "value(@.a)", "length(value(@.a))"]
        lfn = ["match(@.a, 'x.')", "search(@.a, 'y')", "match(value(@.a), 'x')"]
        for op in ("==", "!=", "<", "<=", ">", ">="):
            for a in vfn + lfn:
                for b in vfn + lfn:
                    if a in lfn or b in lfn:
                        fixed.append("$[?%s %s %s]" % (a, op, b))
                        fixed.append("$[?@.b == 1 && %s %s %s]" % (a, op, b))
            for a in lfn:
                fixed += ["$[?%s %s true]" % (a, op), "$[?1 %s %s]" % (op, a), "$[?@.a %s %s]" % (op, a), "$[?(%s) %s 1]" % (a, op)]
        for vf in vfn:
            fixed += ["$[?(%s)]" % vf, "$[?!(%s)]" % vf, "$[?@.b && (%s)]" % vf, "$[?(@.b || %s)]" % vf, "$[?@[?(%s)]]" % vf, "$[?((%s))]" % vf, "$[?%s && @.b]" % vf, "$[?@.b || %s]" % vf]
        for j, text in enumerate(fixed):
            out.append(self.mk("f%d" % j, text, {"kind": "fixed"}))
        out.extend(self.template_cases())
        # arbitrary strings
        alpha = gen.TOKEN_ALPHABET
        for j in range(n // 10):
            text = "".join(self.rng.choice(alpha) for _ in range(self.rng.randrange(0, 12)))
            if self.rng.random() < 0.7:
                text = "$" + text
            out.append(self.mk("a%d" % j, text, {"kind": "arbitrary"}))
        return out

    def judge(self, c, ans):
        v = self.verdict_common(c, ans)
        if v:
            return v
        I, M, R = ans["I"], ans["M"], ans["R"]
        key = c.meta["query"]
        self.count("rfc_" + R[0])
        if c.meta.get("kind") in ("slots", "typing"):
            self.count("%s_%s_%s" % (c.meta["kind"], c.meta.get("slots", c.meta.get("use")), R[0]))
        if R[0] in ("VALID", "EXT"):
            return Verdict("ok", detail="valid sentence or extension call: outside C07")
        if I[0] == "ERR":
            if not self.impl_matches_model(I, M):
                return Verdict("stale", nontrivial=True, key=key)
            return Verdict("ok", nontrivial=True, key=key)
        if self.impl_matches_model(I, M):
            return Verdict("violation", detail="a string that is not a valid RFC 9535 query (%s) is accepted, by the parser and by its model: %r read as %s" % (R[0], key, I[1]), nontrivial=True, key=key)
        return Verdict("violation", detail="a string that is not a valid RFC 9535 query (%s) is accepted: %r read as %s" % (R[0], key, I[1]), nontrivial=True, key=key)


def respell(rng, t):
    """an equivalent spelling of the AST at AST level: name quoting style, redundant parentheses,
    single selector in brackets (same AST), integer vs float literal of the same number"""
    if not isinstance(t, tuple) or not t or t[0] == "s":
        return t
    if t[0] == "name" or (t[0] == "n" and len(t) == 2 and isinstance(t[1], tuple)):
        raw = unS(t[1])
        body = raw[1:-1] if raw[:1] in ("'", '"') else raw
        if "\\" in raw or "'" in body or '"' in body:
            return t
        opts = ["'" + body + "'", '"' + body + '"']
        if t[0] == "name" and body and gen.is_shorthand(body) and all(c.isalnum() or c == "_" or ord(c) >= 128 for c in body) and not body[0].isdigit():
            opts.append(body)
        if t[0] == "n" and body and all(c.isalnum() or c == "_" or ord(c) >= 128 for c in body) and not body[0].isdigit():
            opts.append(body)
        return (t[0], S(rng.choice(opts)))
    if t[0] == "int" and abs(t[1]) < 2**40 and rng.random() < 0.5:
        f = gen.flt(float(t[1]))
        return ("flt", f[1], f[2])
    if t[0] == "atom" and rng.random() < 0.15:
        return ("atom", ("afilter", ("atom", respell(rng, t[1])), 0))
    if t[0] == "filter" and rng.random() < 0.2:
        return ("filter", ("atom", ("afilter", respell(rng, t[1]), 0)))
    return tuple(respell(rng, x) for x in t)


def in_sels_shorthand_fix(t):
    """inside a multi-selector bracket a name must be quoted"""
    if not isinstance(t, tuple) or not t or t[0] == "s":
        return t
    if t[0] == "sels":
        out = []
        for x in t[1:]:
            if isinstance(x, tuple) and x[0] == "name" and gen.is_shorthand(unS(x[1])):
                x = ("name", S("'" + unS(x[1]) + "'"))
            out.append(in_sels_shorthand_fix(x))
        return ("sels",) + tuple(out)
    return tuple(in_sels_shorthand_fix(x) for x in t)


class C13(EvalProp):
    pid = "C13"
    design_ref = "DESIGN.md section 3, C13"
    technique = "Coq lemmas on the RFC semantics (spellings denote the same selector/value) + Theorem A + blank-space theorem through the generated grammar + k-spellings differential run"
    level_text = ("Coq theorems: shorthand, single- and double-quoted spellings of a plain name denote the same name selector; a single "
                  "selector in brackets is the selector; redundant parentheses and ?(expr) do not change a filter; integer and float "
                  "spellings of one number compare alike against every value; through Theorem A the model inherits them. That optional blank "
                  "space does not change the AST is proved for the whole filter-free sublanguage (C13_blank_space_filter_free: the generated "
                  "grammar executed symbolically with arbitrary blank runs at every S position); for filters it is checked on every run by "
                  "rendering each query under k random layouts and spellings (quick k=6, thorough k=24) and by the slot sweep through the "
                  "crate, comparing all results pairwise and with the RFC semantics. String level: $[?e] vs $[?(e)] for every expression of the filter tower (C13_string_level_parens) and $.name vs $['name'] for every shorthand name (C13_string_level_shorthand) select the same nodes in the same order.")
    level_note = "layout-insensitivity of the AST is proved for filter-free queries only; names spelled with escapes are the known class D7"
    rule = ("each (query, document) is spelled k ways (name quoting, .* vs [*], ?e vs ?(e), int vs float, blank space at every S); all "
            "spellings go through query_with_path; observable = sequence of locations; a group is non-trivial when the RFC result is non-empty")
    n_quick = 2500
    n_thorough = 30000

    def cases(self):
        k = 6 if self.tier == "quick" else 24
        n = self.n_quick if self.tier == "quick" else self.n_thorough
        g = gen.Gen(self.rng, gen.Profile(odd_names=True, max_segments=3, filter_depth=2, multi=True))
        out = []
        self._round = getattr(self, "_round", 0) + 1
        tag = "r%d_" % self._round
        gi = 0
        while gi < n:
            q, d = g.pair()
            if not (gen.parser_shaped(q) and gen.valid_ast(q)):
                continue
            for j in range(k):
                q2 = in_sels_shorthand_fix(respell(self.rng, q)) if j > 0 else q
                if not gen.parser_shaped(q2):
                    continue
                ly = gen.Layout(self.rng, blank=self.rng.choice([0.0, 0.3, 0.8]))
                try:
                    text = gen.render(q2, ly)
                except Exception:
                    continue
                out.append(Case("g%s%d_%d" % (tag, gi, j), "EVAL", [q2, d], {"group": tag + str(gi), "query": text}, impl=("E2E", [S(text), d])))
            gi += 1
        out.extend(self.slot_groups(tag))
        # number spellings at string level: exponent forms, trailing zeros, the spellings of (negative) zero
        ndoc = number_spelling_doc()
        for j, (grp, text) in enumerate(number_spelling_cases()):
            out.append(Case("n%s%d" % (tag, j), "STR", [S(text), ndoc], {"group": tag + grp, "query": text, "kind": "numbers"}, impl=("E2E", [S(text), ndoc])))
        return out

    SLOT_DOC = None

    def slot_groups(self, tag):
        """blank-space variants of one template sentence (vlib/templates.py) form a group: string-level cases, where the model
        side runs the model parser and then the model evaluator, and the RFC side the reference recogniser and the semantics"""
        from . import templates
        o = lambda **kw: o_(**kw)
        el = [o(a=("i", 1), b=S("x"), c=f_(2.5), d=("i", 0), e=("i", 100), f=S("x"), x=("i", 1), y=("i", 2), z=("i", 3), k=("a", ("i", 1), o(x=("i", 1))), q=("i", 1)),
              o(a=("a", ("i", 1), ("i", 2)), c=("a", o(x=("i", 1), y=("i", 1), z=("i", 1)), o(x=("i", 1)), o(a=("i", 1), b=("i", 2), c=("i", 3))), k=("i", 5)),
              o(b=("i", 1), c=("i", 2), d=S("e"), k=("a", o(a=("i", 1), b=("i", 1), c=("i", 1)), o(a=S("x"))), s=("a", ("i", 1)), w=("i", 1), z="null"),
              ("a", o(a=("i", 1), b=("i", 2), c=("i", 3), d=("i", 4), e=("i", 5)), ("i", 7)), S("str"), "null"]
        doc = o(s=("a",) + tuple(el), k=("a",) + tuple(el[:3]), x=o(y=("i", 1)), a=("i", 1), t=("i", 1), **{"0": el[0], "1": el[1], "2": el[2]})
        groups = {}
        for text, m in templates.slot_sweep(self.tier == "quick"):
            if m["slots"] in ("none", "all", "one-allowed", "two-allowed"):
                groups.setdefault((m["ctx"], m["expr"]), []).append(text)
        out = []
        for (ci, ei), texts in sorted(groups.items()):
            if self.tier == "quick" and len(texts) > 14:
                texts = texts[:4] + [texts[i] for i in sorted(self.rng.sample(range(4, len(texts)), 10))]
            for j, text in enumerate(texts):
                out.append(Case("t%s%d_%d_%d" % (tag, ci, ei, j), "STR", [S(text), doc], {"group": "%st%d_%d" % (tag, ci, ei), "query": text, "kind": "slots"},
                                impl=("E2E", [S(text), doc])))
        return out

    def judge(self, c, ans):
        if c.kind == "STR" and ans.get("R") and ans["R"][0] != "OK":
            return Verdict("ok", detail="the reference recogniser does not read this template as a valid query")
        return EvalProp.judge(self, c, ans)

    def obs(self, items):
        return locs(items)

    def key(self, c):
        return str(c.meta.get("group"))

    def known_class(self, c, ans, I, M, R, S_, K):
        if isinstance(S_, list) and locs(S_) != locs(R) and locs(S_) == locs(I):
            return "D1-selector-major-union"
        if d7_applies(K):
            return "D7-escaped-names"
        return None

    def post_checks(self, cases, res):
        groups = {}
        for c in cases:
            groups.setdefault(c.meta["group"], []).append(c)
        out = []
        for gi, cs in groups.items():
            first = None
            for c in cs:
                ans = res.get(c.id, {})
                I, R = parse_items(ans.get("I")), parse_items(ans.get("R"))
                if isinstance(I, str) or isinstance(R, str):
                    continue
                if first is None:
                    first = (c, locs(I), locs(R))
                    continue
                if locs(R) != first[2]:
                    out.append((c, ans, Verdict("violation", detail="the RFC semantics differs between two spellings of one query (generator or spec error): %r vs %r" % (c.meta["query"], first[0].meta["query"]))))
                    break
                if locs(I) != first[1]:
                    out.append((c, ans, Verdict("violation", detail="two equivalent spellings give different results: %r -> %r, %r -> %r" % (first[0].meta["query"], first[1], c.meta["query"], locs(I)), nontrivial=True)))
                    break
        return out


def np_text(loc):
    """python rendering of the Normalized Path of a location given as [('n', name) | ('i', k)]"""
    out = "$"
    for kind, v in loc:
        if kind == "i":
            out += "[%d]" % v
        else:
            body = ""
            for ch in v:
                o = ord(ch)
                esc = {8: "\\b", 12: "\\f", 10: "\\n", 13: "\\r", 9: "\\t", 39: "\\'", 92: "\\\\"}
                if o in esc:
                    body += esc[o]
                elif o < 32:
                    body += "\\u%04x" % o
                else:
                    body += ch
            out += "['" + body + "']"
    return out


def doc_locations(d, loc=()):
    yield loc, d
    if isinstance(d, tuple) and d and d[0] == "a":
        for i, x in enumerate(d[1:]):
            yield from doc_locations(x, loc + (("i", i),))
    elif isinstance(d, tuple) and d and d[0] == "o":
        for k, x in d[1:]:
            yield from doc_locations(x, loc + (("n", unS(k)),))


def loc_plain_py(loc):
    return all(kind == "i" or all(ord(c) >= 32 and c not in "'\\" for c in v) for kind, v in loc)


class C09(PropCheck):
    pid = "C09"
    design_ref = "DESIGN.md section 3, C09"
    technique = "Coq proof (path_steps/walk = lookup of the location; lens laws of set_at) + exhaustive per-location differential run"
    level_text = ("Coq theorems: for every document and every location whose names need no escaping (indices below 2^53), the model of "
                  "reference/reference_mut applied to the STRING np(l) -- parsed by the PEG interpreter over the grammar generated from the "
                  ".pest file of this run and by the model of parser.rs (C09_reference_string_partial, by symbolic execution of the grammar), "
                  "then path_steps + step-by-step walk -- resolves to exactly that location when it exists and to None when it does not; whatever a path resolves to lives at the resolved location; writing through a "
                  "location replaces that node and leaves every location that does not pass through it unchanged (lens laws, unbounded). "
                  "That the parser reads np(l) as that AST is checked on every run: every location of generated documents, near-miss paths "
                  "(wrong step kind, out of range, / and ~ names), and paths reported by queries are fed to reference and reference_mut of the crate.")
    level_note = "names needing escapes are the known class D6 (raw result paths); &mut aliasing is Rust's type system"
    rule = ("for generated documents: every location (capped per document) with its Normalized Path, near-miss paths, and paths reported by "
            "random queries; 6 replacement values; observable = resolved location (by address) and the whole document after writing through "
            "reference_mut; non-trivial = the path resolves in the RFC reading; distinct = distinct (document, path, replacement)")
    n_quick = 700
    n_thorough = 20000

    REPL = ["null", ("i", 7), S("new"), ("a", ("i", 1)), ("o", (S("k"), ("b", 1))), ("f", 1, -1)]

    def cases(self):
        n = self.n_quick if self.tier == "quick" else self.n_thorough
        out = []
        profs = [gen.Profile(odd_names=True, max_depth=3), gen.Profile(odd_names=True, hostile_names=True, max_depth=3)]
        cid = 0
        for di in range(n):
            g = gen.Gen(self.rng, profs[di % 2])
            d = g.doc()
            locs_ = list(doc_locations(d))
            self.rng.shuffle(locs_)
            for loc, sub in locs_[:8]:
                paths = [(np_text(loc), "np")]
                if loc:
                    kind, v = loc[-1]
                    par = loc[:-1]
                    if kind == "i":
                        paths += [(np_text(par + (("n", str(v)),)), "index-as-name"), (np_text(par + (("i", v + 50),)), "out-of-range"),
                                  (np_text(par) + "[-1]", "negative")]
                    else:
                        paths += [(np_text(par + (("n", v + "x"),)), "missing-name"), (np_text(par) + "[0]", "name-as-index")]
                        if v.isdigit():
                            paths += [(np_text(par) + "[%s]" % v, "digit-name-as-index")]
                else:
                    paths += [("$[*]", "non-singular"), ("$..a", "non-singular"), ("$.a.b", "missing"), ("$['a~1b']", "tilde"), ("$['a/b']", "slash"), ("", "invalid"), ("$[", "invalid")]
                for text, why in paths:
                    r = self.rng.choice(self.REPL)
                    out.append(Case("c%d" % cid, "REF", [d, S(text), r], {"path": text, "why": why, "plain": loc_plain_py(loc)}))
                    cid += 1
        # very deep locations: Normalized Paths of 127 to 201 steps
        for depth in (127, 128, 129, 140, 200):
            dd = nest_doc(depth, leaf=("o", (S("leaf"), ("i", 1))))
            loc = tuple(("i", 0) if i % 2 == 0 else ("n", "a") for i in reversed(range(depth)))
            for l2 in (loc, loc + (("n", "leaf"),), loc[:-1], loc + (("n", "nope"),)):
                out.append(Case("c%d" % cid, "REF", [dd, S(np_text(l2)), self.rng.choice(self.REPL)], {"path": "depth %d" % len(l2), "why": "deep", "plain": True}))
                cid += 1
        # member names that look like query syntax (two dots, dot-star, bracket-star, bracket-question mark, ...)
        odd = ["archive..tar", "a.*b", "items[*]", "q[?x", "..", ".*", "[*", "[?", "a..", "*", "?", "$", "@", "a[0]", "x.y", "[", "]", "(", "a,b", "a:b", "1:2", "-1", "&&", "||", "!", "=="]
        od = ("o",) + tuple((S(k_), ("o", (S(k_), ("a", ("i", 1), ("o", (S("in"), ("i", 2))))))) for k_ in sorted(odd, key=lambda x: [ord(c) for c in x]))
        for k_ in odd:
            for l2 in ((("n", k_),), (("n", k_), ("n", k_)), (("n", k_), ("n", k_), ("i", 1), ("n", "in")), (("n", k_), ("n", "zz")), (("n", k_ + "x"),)):
                out.append(Case("c%d" % cid, "REF", [od, S(np_text(l2)), self.rng.choice(self.REPL)], {"path": np_text(l2), "why": "syntax-like-name", "plain": True}))
                cid += 1
        # long arrays: index steps of two, three and four digits
        big = ("a",) + tuple(("i", i) for i in range(1234))
        for d, pre, ploc in ((big, "$", ()), (o_(k=big, j=("a", big)), "$['k']", (("n", "k"),)), (o_(k=big, j=("a", big)), "$['j'][0]", (("n", "j"), ("i", 0)))):
            for i in (9, 10, 11, 19, 20, 99, 100, 101, 105, 110, 111, 999, 1000, 1001, 1005, 1010, 1100, 1233, 1234, 1240, 12330, 100000):
                r = self.rng.choice(self.REPL)
                out.append(Case("c%d" % cid, "REF", [d, S("%s[%d]" % (pre, i)), r], {"path": "%s[%d]" % (pre, i), "why": "long-array", "plain": True}))
                cid += 1
            for text, why in (("%s['105']" % pre, "index-as-name"), ("%s[-1]" % pre, "negative"), ("%s[0105]" % pre, "leading-zero"), ("%s[1 05]" % pre, "blank-in-index")):
                out.append(Case("c%d" % cid, "REF", [d, S(text), self.rng.choice(self.REPL)], {"path": text, "why": why, "plain": True}))
                cid += 1
        # indices that wrap around a narrower integer type must not resolve (2^8, 2^16, 2^31, 2^32, 2^33, 2^48 + r, up to 2^53-1)
        small = ("a", S("zero"), S("one"), S("two"))
        for d, pre in ((small, "$"), (o_(a=small), "$['a']"), (big, "$")):
            for sh in (8, 16, 31, 32, 33, 48, 52):
                for r in (0, 1, 2):
                    for i in ((1 << sh) + r, (3 << sh) + r if sh < 51 else (1 << 53) - 1 - r):
                        if d is big and i < 1234:
                            continue
                        out.append(Case("c%d" % cid, "REF", [d, S("%s[%d]" % (pre, i)), self.rng.choice(self.REPL)],
                                        {"path": "%s[%d]" % (pre, i), "why": "index-wrap", "plain": True}))
                        cid += 1
        huge = ("a",) + tuple(("i", i % 97) for i in range(12500))
        for i in (9999, 10000, 10001, 10100, 11011, 12345, 12354, 12499, 12500, 123450):
            out.append(Case("c%d" % cid, "REF", [huge, S("$[%d]" % i), self.rng.choice(self.REPL)], {"path": "$[%d]" % i, "why": "long-array", "plain": True}))
            cid += 1
        # paths reported by queries are fed back
        g = gen.Gen(self.rng, gen.Profile(odd_names=True, max_segments=3, filter_depth=1))
        for qi in range(n // 2):
            q, d = g.pair()
            if not (gen.parser_shaped(q) and gen.valid_ast(q)):
                continue
            text = gen.render(q, gen.Layout(self.rng, 0.0))
            out.append(Case("q%d" % qi, "EVAL", [q, d], {"feed": True, "query": text}, impl=("E2E", [S(text), d])))
        return out

    def followups(self, c, ans):
        if not c.meta.get("feed"):
            return []
        I = parse_items(ans.get("I"))
        if isinstance(I, str):
            return []
        out = []
        d = c.fields[1]
        for k, (l, p) in enumerate(I[:4]):
            text = "".join(chr(int(x)) for x in p.split(".")) if p else ""
            out.append(Case("%sf%d" % (c.id, k), "REF", [d, S(text), self.rng.choice(self.REPL)],
                            {"path": text, "why": "reported-by-query", "expect_loc": l, "plain": True}))
        return out

    def judge(self, c, ans):
        if c.kind != "REF":
            return Verdict("ok")
        I, M, R = ans.get("I"), ans.get("M"), ans.get("R")
        key = sx_key(c)
        if not I or not M or not R:
            return Verdict("violation", detail="missing answer %r" % ans)
        if I[0] not in ("OK", "NONE"):
            return Verdict("violation", detail="reference/reference_mut answered %r" % (I,), nontrivial=True, key=key)
        from .sx import parse, canon
        def obs(x):
            return (x[0], x[1], canon(parse(x[2])) if len(x) > 2 and x[2].startswith("(") else x[2] if len(x) > 2 else None)
        oI, oM, oR = obs(I), obs(M), obs(R)
        nt = R[0] == "OK"
        self.count("why_" + c.meta.get("why", "?"))
        if "expect_loc" in c.meta:
            # a path reported by a query must resolve to the node it was reported for
            if I[0] == "OK" and I[1] == c.meta["expect_loc"]:
                return Verdict("ok", nontrivial=True, key=key)
            if oI == oM and not expect_loc_plain(c.meta["expect_loc"]):
                # the member's own name contains ' \ or a control character (e.g. a decoy member literally named 'd'):
                # the reported path spells it raw, so it denotes another member or nothing -- the listed class D6
                self.count("known_D6")
                return Verdict("known", cls="D6-raw-paths", detail="reported path %r does not resolve back (raw member name)" % c.meta["path"], nontrivial=True, key=key)
            if oI == oM and not all(ord(ch) >= 32 and ch not in "\\" for ch in c.meta["path"].replace("['", "").replace("']", "")) or "\"" in c.meta["path"] or c.meta["path"].count("'") % 2 == 1:
                self.count("known_D6")
                return Verdict("known", cls="D6-raw-paths", detail="reported path %r does not resolve back" % c.meta["path"], nontrivial=True, key=key)
            if oI == oM and oI != oR:
                self.count("known_D6")
                return Verdict("known", cls="D6-raw-paths", detail="reported path %r does not resolve back" % c.meta["path"], nontrivial=True, key=key)
            return Verdict("violation", detail="the path %r reported for %s resolves to %r" % (c.meta["path"], c.meta["expect_loc"], I[:2]), nontrivial=True, key=key)
        if oI == oR:
            if oM != oI:
                return Verdict("stale", nontrivial=nt, key=key)
            return Verdict("ok", nontrivial=nt, key=key)
        if oI == oM:
            if not c.meta.get("plain", True) or not loc_plain_text(c.meta["path"]):
                self.count("known_D6")
                return Verdict("known", cls="D6-raw-paths", detail="impl=model=%r rfc=%r" % (I[:2], R[:2]), nontrivial=nt, key=key)
            return Verdict("violation", detail="reference(%r): implementation (and model) give %r, RFC reading gives %r" % (c.meta["path"], I[:2], R[:2]), nontrivial=nt, key=key)
        return Verdict("violation", detail="reference(%r): implementation %r, RFC reading %r, model %r" % (c.meta["path"], I[:2], R[:2], M[:2]), nontrivial=nt, key=key)


class C12(PropCheck):
    pid = "C12"
    design_ref = "DESIGN.md Part I section I.1 and Part II section 3, C12"
    technique = "generated Coq obligation (shared-state footprint of src/ is empty) + stateless state-machine theorems + history/thread/process differential run"
    level_text = ("tools/footprint.py scans src/ on every run and emits gen/Footprint.v; C12_no_shared_state proves the list of statics, "
                  "thread-locals, locks, cells, atomics and unsafe blocks empty by reflexivity (a cache added to the crate breaks this "
                  "obligation). Under it the API is the stateless machine of Purity.v, for which entry-point agreement, parse-once = "
                  "parse-each and independence from every history are theorems. Partial by nature: schedules are runtime behaviour; the "
                  "S-hist stream runs, per batch and in a fresh process, 40 permuted/repeated histories and 16 threads sharing each parsed "
                  "query and document, and every batch again with its operations reversed in another fresh process (per-operation digests "
                  "must agree: what the first-ever use in a process caches is thereby exposed).")
    level_note = "partial: thread schedules and data races are sampled, not proved; Send + Sync of JpQuery is a compile-time assertion of the harness"
    rule = ("batches of 17 (query string, document) operations incl. match/search pairs over one pattern, names with escapes, a deep document under descendant segments and absolute existence tests over documents that disagree; every parsed query is also run on every document of the batch (sequentially and from the threads) and compared with its string there: entry points "
            "compared position by position, 40 permuted and reversed histories, prepared vs re-parsed queries, 16 threads x 60 iterations over "
            "shared Arc<JpQuery>/Arc<Value>, document snapshot; each batch twice in fresh processes (forward / reversed); "
            "non-trivial = every batch; distinct = distinct batches")
    n_quick = 60
    n_thorough = 2000
    harness_features = "sendsync"
    isolate_cases = True

    def cases(self):
        n = self.n_quick if self.tier == "quick" else self.n_thorough
        g = gen.Gen(self.rng, gen.Profile(odd_names=True, hostile_names=True, regex=True, custom=True, max_segments=3, filter_depth=2))
        out = []
        strs = ("a", S("abc"), S("b"), S("xyz"), S("bb"), S("ab"), ("i", 1))
        for b in range(n):
            ops = []
            shared_doc = g.doc()
            while len(ops) < 12:
                q, d = g.pair()
                if not (gen.parser_shaped(q) and gen.valid_ast(q)):
                    continue
                text = gen.render(q, gen.Layout(self.rng, 0.1))
                if self.rng.random() < 0.1:
                    text = gen.mutate(self.rng, text)      # invalid queries are part of a history too
                ops.append((S(text), shared_doc if self.rng.random() < 0.4 else d))
            # a deep document under descendant segments (a depth counter shared between threads shows up only here), and
            # absolute existence tests over documents that disagree on them (a memo inside the parsed query shows up only here)
            deep = nest_doc(self.rng.choice([24, 40, 70]), leaf=o_(a=("i", 1), x=("a", ("i", 1), ("i", 2))))
            ops.append((S(self.rng.choice(["$..*", "$..a", "$..[0]", "$..x[?@ > 1]", "$[?count(@..*) > 3]"])), deep))
            ops.append((S(self.rng.choice(["$[?$.x]", "$[?!$.x]", "$[?$.x && @ != 2]", "$[?@ == 1 || $.x]", "$..[?$.x.y]"])),
                        self.rng.choice([o_(x=o_(y=("i", 1)), a=("i", 1), b=("a", ("i", 1), ("i", 2))), ("a", ("i", 1), ("i", 2), o_(x=("i", 1)))])))
            ops.append((S(self.rng.choice(["$[?$.x]", "$[?!$.x]", "$[?$[0]]", "$.*[?!$.x.y]"])),
                        self.rng.choice([o_(a=("i", 1), b=("a", ("i", 1), o_(x=("i", 3)))), o_(x="null", k=("a", ("i", 2)))])))
            pat = self.rng.choice(["b", "a.", "ab|b", "[ab]+", "b*", "x", "a|b"])
            ops.append((S("$[?match(@,'%s')]" % pat), strs))
            ops.append((S("$[?search(@,'%s')]" % pat), strs))
            self.rng.shuffle(ops)
            seed = str(self.rng.randrange(1, 2**31))
            out.append(Case("h%da" % b, "HIST", [("ops",) + tuple(ops), seed], {"batch": b, "order": "forward"}))
            out.append(Case("h%db" % b, "HIST", [("ops",) + tuple(reversed(ops)), seed], {"batch": b, "order": "reversed"}))
        # entry points on singular paths spelled with every kind of escape (and on random queries)
        gh = gen.Gen(self.rng, gen.Profile(odd_names=True, hostile_names=True, max_depth=3))
        k = 0
        for _ in range(n * 4):
            d = gh.doc()
            locs_ = [l for l, _ in doc_locations(d) if l]
            if not locs_:
                continue
            loc = self.rng.choice(locs_)
            text = "$"
            spelled = []
            for kind, v in loc:
                if kind == "i":
                    text += "[%d]" % v
                else:
                    raw = gen.fancy_name(self.rng, v)
                    spelled.append(("name", S(raw)))
                    text += "[" + raw + "]"
            if spelled and self.rng.random() < 0.4:
                # a member whose name IS the spelling (quotes and escapes included) next to the member it denotes
                d = gh.add_decoys(d, ("q",) + tuple(spelled))
            out.append(Case("e%d" % k, "E2E", [S(text), d], {"entry": True, "query": text}))
            k += 1
        dn = o_(a=("a", S("x"), S("y"), o_(**{"0": ("i", 5)})), **{"1": S("one"), "0": ("a", ("i", 1), ("i", 2))})
        for j, text in enumerate(["$[1]", "$['1']", "$.a['0']", "$.a[0]", "$['a']['1']", "$['0'][0]", "$[0][0]", "$['0']['0']", "$.a[2]['0']", "$.a[2][0]", "$['a'][2]['0']", "$[0]", "$['0']"]):
            out.append(Case("ed%d" % j, "E2E", [S(text), dn], {"entry": True, "query": text}))
            out.append(Case("eda%d" % j, "E2E", [S(text), ("a", S("zero"), dn, ("a", ("i", 9)))], {"entry": True, "query": text}))
        for c in neg_index_path_cases(self.rng, n * 2, "en"):
            out.append(Case(c.id, "E2E", list(c.impl[1]), {"entry": True, "query": c.meta["query"]}))
        return out

    def judge(self, c, ans):
        I = ans.get("I")
        if not I:
            return Verdict("violation", detail="no answer")
        if c.meta.get("entry"):
            if I[0] in ("ERR",):
                return Verdict("ok")
            if I[0] == "OK" and "entry=1" in I and "parsed_once=1" in I and "DOC_CHANGED" not in I:
                return Verdict("ok", nontrivial=True, key=sx_key(c))
            return Verdict("violation", detail="entry points disagree on %r: %r" % (c.meta["query"], I[2:] if len(I) > 2 else I), nontrivial=True, key=sx_key(c))
        if I[0] == "OK":
            return Verdict("ok", nontrivial=True, key=sx_key(c))
        return Verdict("violation", detail="history/schedule dependence: %r" % (I,), nontrivial=True, key=sx_key(c))

    def post_checks(self, cases, res):
        by = {}
        for c in cases:
            if "batch" not in c.meta:
                continue
            by.setdefault(c.meta["batch"], {})[c.meta["order"]] = c
        out = []
        for b, pair in by.items():
            if "forward" not in pair or "reversed" not in pair:
                continue
            fa, ra = res.get(pair["forward"].id, {}).get("I"), res.get(pair["reversed"].id, {}).get("I")
            if not fa or not ra or fa[0] != "OK" or ra[0] != "OK" or len(fa) < 3 or len(ra) < 3:
                continue
            df, dr = fa[2].split(","), ra[2].split(",")
            if df != list(reversed(dr)):
                k = next((i for i, (x, y) in enumerate(zip(df, reversed(dr))) if x != y), -1)
                out.append((pair["forward"], res.get(pair["forward"].id, {}),
                            Verdict("violation", nontrivial=True,
                                    detail="operation %d of the batch returns %s when the batch runs forward and %s when it runs reversed in a fresh process: the result depends on the history" % (k, df[k] if k >= 0 else "?", list(reversed(dr))[k] if k >= 0 else "?"))))
        return out


class C15(EvalProp):
    pid = "C15"
    design_ref = "DESIGN.md section 3, C15"
    technique = "evaluator model written once over an abstract Queryable record (parametricity by construction) + second Rust Queryable run against serde_json::Value"
    level_text = ("The Coq model of the evaluator (Eval.v) is one Gallina definition over an abstract record of the trait's accessors: it "
                  "cannot use anything else. The selector lemmas C11_index / C11_slice_nodes are proved for every instance. The harness "
                  "contains a second, independent Rust implementation of Queryable (vector-backed objects, separate int/uint/float kinds); "
                  "every generated query is evaluated by the crate's engine over both representations of the same document and the results "
                  "(locations found by address, path strings, order) must be identical, and equal to the model's and the RFC's. A further stream builds the second Queryable directly from the generated document with the members of every object in shuffled order (a Queryable may present members in any order): the engine over it, under both accessor styles, must agree with the model and the RFC semantics evaluated on that ordered view -- wildcards, descendants and filters follow the order presented, equality and the extension functions do not depend on it. The string entry points are covered too: the harness implements JsonPath for the second Queryable with the provided methods only, and random query strings as well as the Normalized Path of document locations go through query_with_path / query / query_only_path of both representations, which must agree with each other, the model and the RFC.")
    level_note = "the simulation theorem between two arbitrary faithful instances is stated in Properties/C15.v; see its header for what is proved"
    rule = ("random (query, document) pairs as programmatically built ASTs evaluated through js_path_process::<V> for the second Queryable V "
            "and through js_path_process::<Value>; observable = (location by address, path) sequences of both; non-trivial = non-empty RFC result")
    n_quick = 12000
    e2e_share = 0.0

    def profile(self):
        return gen.Profile(odd_names=True, custom=True, regex=False, programmatic=True, big_ints=True)

    def make_case(self, cid, q, d, meta=None):
        return Case(cid, "EVAL", [q, d], dict(meta or {}), impl=("GEN", [q, d]))

    def obs(self, items):
        return locs(items)

    # --- member order: a Queryable may present the members of an object in any order (serde_json with preserve_order,
    # an insertion-ordered map, ...).  Equality of objects must not depend on it; wildcards, descendants and filters must
    # follow it.  These cases run the engine over the second Queryable only, built with the members in the order written
    # (GENU), against the model and the RFC semantics evaluated on the same ordered view.
    def shuffled(self, d):
        if isinstance(d, tuple) and d and d[0] == "a":
            return ("a",) + tuple(self.shuffled(x) for x in d[1:])
        if isinstance(d, tuple) and d and d[0] == "o":
            ms = [(k, self.shuffled(v)) for k, v in d[1:]]
            self.rng.shuffle(ms)
            return ("o",) + tuple(ms)
        return d

    def unsorted_case(self, cid, q, d, meta=None):
        m = dict(meta or {})
        m["member_order"] = "as written"
        return Case(cid, "EVAL", [q, d], m, impl=("GENU", [q, d]))

    def extra_cases(self):
        out = []
        g = gen.Gen(self.rng, self.profile())
        n = 1500 if self.tier == "quick" else 20000
        for i in range(n):
            q, d = g.pair()
            out.append(self.unsorted_case("u", q, self.shuffled(d)))
        # the STRING entry points of the JsonPath trait over the second Queryable (`impl JsonPath for V {}`: provided methods
        # only): random renderable queries, and queries spelled exactly as the Normalized Path of a location of the document
        gs = gen.Gen(self.rng, gen.Profile(odd_names=True, custom=True, regex=False))
        ns = 1200 if self.tier == "quick" else 15000
        made = 0
        for i in range(ns * 3):
            if made >= ns:
                break
            q, d = gs.pair()
            if not (gen.parser_shaped(q) and gen.valid_ast(q) and gen.renderable(q)):
                continue
            try:
                text = gen.render(q, gen.Layout(self.rng, blank=0.1 if self.rng.random() < 0.5 else 0.0))
            except Exception:
                continue
            out.append(Case("s", "EVAL", [q, d], {"query": text, "string_api": True}, impl=("GENS", [S(text), d])))
            made += 1
        for i in range(300 if self.tier == "quick" else 3000):
            d = gs.doc()
            locs_ = [l for l, _ in doc_locations(d) if l and loc_plain_py(l)]
            self.rng.shuffle(locs_)
            for loc in locs_[:3]:
                q = ("q",) + tuple(("sel", ("idx", v)) if kind == "i" else ("sel", ("name", S("'" + v + "'"))) for kind, v in loc)
                text = np_text(loc)
                out.append(Case("s", "EVAL", [q, d], {"query": text, "string_api": True, "table": "normalized-path-as-query"}, impl=("GENS", [S(text), d])))
        # equal objects whose members come in different orders, compared with every operator, directly and nested
        def ob(*kv):
            return ("o",) + tuple((S(k), v) for k, v in kv)
        A = ob(("a", ("i", 1)), ("b", ("i", 2)), ("c", S("x")))
        B = ob(("c", S("x")), ("a", ("i", 1)), ("b", ("i", 2)))
        C = ob(("b", ("i", 2)), ("c", S("x")), ("a", f_(1.0)))
        Dd = ob(("a", ("i", 1)), ("b", ("i", 3)), ("c", S("x")))
        E = ob(("a", ("i", 1)), ("b", ("i", 2)))
        N1 = ob(("k", A), ("j", ("a", B, C)))
        N2 = ob(("j", ("a", C, A)), ("k", B))
        objs = [A, B, C, Dd, E, N1, N2, ob(), ob(("z", ob()), ("y", ("a",))), ob(("y", ("a",)), ("z", ob()))]
        rows = ("a",) + tuple(ob(("y", y), ("x", x)) for x in objs for y in objs)
        refdoc = ob(("rows", rows), ("ref", B), ("list", ("a", C, N2, E)))
        x, y = ("sq", "cur", ("n", S("x"))), ("sq", "cur", ("n", S("y")))
        for op in OPS6:
            out.append(self.unsorted_case("u", filt(("cmp", op, x, y)), rows, {"table": "permuted-objects", "op": op}))
            q = ("q", ("sel", ("name", S("rows"))), ("sel", ("filter", ("atom", ("cmp", op, ("sq", "cur", ("n", S("x"))), ("sq", "root", ("n", S("ref"))))))))
            out.append(self.unsorted_case("u", q, refdoc, {"table": "permuted-objects-root", "op": op}))
        for name in ("in", "nin", "none_of", "any_of", "subset_of"):
            for args in ((("argt", ("rel", ("sel", ("name", S("x"))))), ("argt", ("abs", ("sel", ("name", S("list")))))),
                         (("argt", ("abs", ("sel", ("name", S("list"))))), ("argt", ("abs", ("sel", ("name", S("list"))))))):
                q = ("q", ("sel", ("name", S("rows"))), ("sel", ("filter", ("atom", ("atest", ("tfn", ("custom", S(name)) + args), 0)))))
                out.append(self.unsorted_case("u", q, refdoc, {"table": "permuted-objects-ext", "fn": name}))
        # the same without any number in sight, inside arrays (an engine that compares arrays through the PartialEq of the type sees
        # the members in the order presented)
        SA = ob(("id", S("a")), ("tag", S("x")))
        SB = ob(("tag", S("x")), ("id", S("a")))
        SC = ob(("tag", S("y")), ("id", S("a")))
        sobjs = [SA, SB, SC, ("a", SA), ("a", SB), ("a", SC), ("a", SA, SB), ("a", SB, SA), ("a", ("a", SB)), ("a", ("a", SA)), ob(("k", ("a", SA))), ob(("k", ("a", SB))),
                 ("a", S("s"), SB, "null", ("b", 1)), ("a", S("s"), SA, "null", ("b", 1))]
        srows = ("a",) + tuple(ob(("y", y), ("x", x)) for x in sobjs for y in sobjs)
        for op in ("eq", "ne"):
            out.append(self.unsorted_case("u", filt(("cmp", op, x, y)), srows, {"table": "permuted-objects-no-numbers", "op": op}))
        # functions over strings seen through the trait: length counts Unicode scalar values, whatever the type's own notion of size
        strs_ = ("a", S("n\u00e9"), S("abc"), S("\u65e5\u672c"), S("ab"), S(""), S("\U0001F600"), S("a\U0001F600b"), S("\u00e9\u00e9\u00e9"), ("i", 2), ("a", S("\u00e9")), ob(("\u00e9", S("\u00e9\u00e9"))))
        cur_ = ("sq", "cur")
        for kq in range(0, 5):
            q = filt(("cmp", "eq", ("fn", ("length", ("argt", ("rel",)))), ("lit", ("int", kq))))
            out.append(self.make_case("fl", q, strs_, {"table": "length-non-ascii"}))
            out.append(self.unsorted_case("u", q, strs_, {"table": "length-non-ascii"}))
            text = "$[?length(@) == %d]" % kq
            out.append(Case("s", "EVAL", [q, strs_], {"query": text, "string_api": True, "table": "length-non-ascii"}, impl=("GENS", [S(text), strs_])))
        # member order is what wildcards, descendants and filters follow
        for q in (("q", ("sel", "wild")), ("q", ("desc", ("sel", "wild"))), ("q", ("sel", "wild"), ("sel", "wild")),
                  ("q", ("sel", ("filter", ("atom", ("atest", ("rel", ("sel", ("name", S("a")))), 0))))),
                  ("q", ("desc", ("sel", ("name", S("a")))))):
            for dd in (N1, N2, refdoc, ob(("b", A), ("a", B), ("c", C))):
                out.append(self.unsorted_case("u", q, dd, {"table": "member-order"}))
        return out

    def extra_checks(self, c, ans, I, M, R):
        flags = ans.get("I", [])[2:]
        if "same=0" in flags:
            if c.meta.get("member_order"):
                return "the engine gives different results under the two accessor styles of the second Queryable"
            return "the engine gives different results over the second Queryable and over serde_json::Value for the same document"
        return None

    def known_class(self, c, ans, I, M, R, S_, K):
        if isinstance(S_, list) and locs(S_) != locs(R) and locs(S_) == locs(I):
            return "D1-selector-major-union"
        if d7_applies(K):
            return "D7-escaped-names"
        return None


def nest_doc(depth, leaf=("i", 1)):
    d = leaf
    for i in range(depth):
        d = ("a", d) if i % 2 == 0 else ("o", (S("a"), d))
    return d


class C08(ParseProp):
    pid = "C08"
    design_ref = "DESIGN.md section 3, C08"
    technique = "Coq theorems (evaluation has no Err path; checked i64 arithmetic stays in range; loops bounded) + isolated-worker robustness run in debug and release builds"
    level_text = ("Coq theorems: js_path_process never takes its Err arm, for every AST, document and Queryable; every i64 operation of "
                  "process_index/process_slice stays in range for I-JSON-range integers and arrays shorter than 2^62 (so no debug-build "
                  "overflow panic and no release-build wrap), every array[i] is in bounds, both slice loops stop within len iterations. "
                  "Partial by nature for the rest: panics inside pest/regex/serde_json, stack exhaustion and wall-clock time are observed by "
                  "running arbitrary strings, near-valid mutants, extreme integers, empty/scalar/deep documents and deeply nested queries "
                  "through every public entry point in isolated workers, in a debug build with overflow checks and in a release build. Parsing terminates for EVERY input string in the model: C08_parser_never_out_of_fuel (PegTerm.v: a PEG without left recursion whose repetition steps consume needs at most length x H + leftmost-height fuel; the rank and nullability tables are produced by the grammar translator and checked by computation against the generated grammar on every run). The answer of the parser model is independent of the fuel beyond that point (C08_parse_answer_independent_of_fuel): a rejection by the model is never an artefact of bounded recursion.")
    level_note = "partial: stack and time are runtime facts; unbounded recursion depth is the known finding D17 (5000 nested filters abort the process), exponential parse time of nested function calls over comparisons the known finding D26"
    rule = ("strings: arbitrary, single-token edits of valid sentences, integer extremes (+-(2^53-1), i64 limits, beyond), nesting sweeps of "
            "queries (filters, parentheses, segments) and documents; programmatic ASTs with I-JSON-range integers; each through parse, the "
            "three query entry points, reference and reference_mut, debug and release; a case is non-trivial when the string parses")
    release_too = True
    n_quick = 6000
    n_thorough = 300000

    def cases(self):
        n = self.n_quick if self.tier == "quick" else self.n_thorough
        out = []
        docs = ["null", ("i", 1), S("s"), ("a",), ("o",), ("a", ("i", 1), ("i", 2), ("i", 3)), nest_doc(6), nest_doc(60), nest_doc(200),
                ("a",) + tuple(("i", i) for i in range(300)), o_(a=("a", S("x"), S("xy")), b=("o",))]
        g = gen.Gen(self.rng, gen.Profile(odd_names=True, hostile_names=True, regex=True, custom=True))
        base = self.sentences(max(300, n // 8))
        i = 0
        while len(out) < n:
            text, _ = base[i % len(base)]
            r = self.rng.random()
            if r < 0.45:
                text = gen.mutate(self.rng, text)
            elif r < 0.55:
                text = "".join(self.rng.choice(gen.TOKEN_ALPHABET) for _ in range(self.rng.randrange(0, 14)))
            d = self.rng.choice(docs) if self.rng.random() < 0.5 else g.doc()
            if text.count("..") >= 2 and any(d is x for x in docs[7:10]):
                # several descendant segments over a deep or wide document multiply the (legitimately duplicated) nodelist
                # into millions of nodes: minutes in a debug build, and nothing but time is learnt from it
                d = docs[6]
            out.append(Case("s%d" % i, "ROB", [S(text), d], {"query": text}))
            i += 1
        ext = [MAXI, -MAXI, MAXI - 1, 2**31, -2**31, 2**32, 2**52, 0, 1, -1]
        big = ["9223372036854775807", "-9223372036854775808", "9223372036854775808", "-9223372036854775809", "18446744073709551616",
               "1e308", "1e309", "-1e309", "1e-400", "9007199254740991", "-9007199254740991", "9007199254740992", "1" + "0" * 400, "0." + "0" * 400 + "1"]
        j = 0
        for a in ext:
            for b in ext[:6]:
                for q in ("$[%d:%d:%d]" % (a, b, ext[(j * 7) % len(ext)] or 1), "$[%d]" % a, "$..[%d:%d]" % (b, a), "$[?@[%d]==%d]" % (a, b), "$[::%d]" % a):
                    out.append(Case("x%d" % j, "ROB", [S(q), self.rng.choice(docs)], {"query": q}))
                    j += 1
        for lit in big:
            for q in ("$[?@==%s]" % lit, "$[?@.a<%s]" % lit, "$[%s]" % lit, "$[:%s]" % lit, "$[?length(@)==%s]" % lit):
                out.append(Case("x%d" % j, "ROB", [S(q), self.rng.choice(docs)], {"query": q}))
                j += 1
        for depth in (10, 100, 400, 1000):
            for q in ("$" + "[?@" * depth + "]" * depth, "$[?" + "(" * depth + "@.a" + ")" * depth + "]", "$" + "[0]" * depth, "$" + ".a" * depth,
                      "$[?" + "!(" * depth + "@.a" + ")" * depth + "]", "$[?@" + "[?@" * (depth // 4) + "]" * (depth // 4) + "]", "$" + "..a" * min(depth, 100)):
                out.append(Case("n%d" % j, "ROB", [S(q), nest_doc(8)], {"query": q[:60] + "...", "depth": depth}))
                j += 1
        pats = ["(a*)*b", "(a|aa)+$", "a{1000}", "(a{1000}){1000}", "[", "(", "\\\\", "(?i)a", "\\\\p{Lu}+", "a**", "." * 2000, "(" * 300 + "a" + ")" * 300]
        # patterns that are regular expressions by themselves but not once match() wraps them in ^(?:...)$, and the converse:
        # group nesting on both sides of the regex crate's nest limit (wrapping adds one level), comments of the
        # verbose mode swallowing the closing parenthesis, unbalanced parentheses that the wrapper would balance
        pats += ["(" * d + "a" + ")" * d for d in range(244, 256)]
        pats += ["(?:" * d + "a" + ")" * d for d in (248, 249, 250, 251)]
        pats += ["(?x)a # c", "(?x)a#", "a(?x) # c", "(?x:a # c", "(?x)a #)", "(?x) # (", "(?s-x)a # c", "a)(?:b", ")(", "a)|(b", "(?:a", "a)", "^(?:a", "a)$"]
        for pat in pats:
            q = "$[?match(@, '%s')]" % pat
            out.append(Case("r%d" % j, "ROB", [S(q), ("a", S("a" * 2000), S("b"), ("i", 1))], {"query": q[:80]}))
            q = "$[?search(@, '%s')]" % pat
            out.append(Case("r%d" % (j + 1), "ROB", [S(q), ("a", S("a" * 2000), S("b"), ("i", 1))], {"query": q[:80]}))
            j += 2
        # the same patterns taken from the document
        pdoc = ("a",) + tuple(o_(s=S("a"), p=S(pat)) for pat in pats if len(pat) < 1200)
        for q in ("$[?match(@.s, @.p)]", "$[?search(@.s, @.p)]", "$[?!match(@.p, @.p)]"):
            out.append(Case("r%d" % j, "ROB", [S(q), pdoc], {"query": q}))
            j += 1
        # programmatically built queries with integers in the I-JSON range
        ga = gen.Gen(self.rng, gen.Profile(odd_names=True, hostile_names=True, programmatic=True, custom=True, regex=True))
        for k in range(n // 4):
            q, d = ga.pair()
            if not gen.valid_ast(q):
                continue
            out.append(Case("a%d" % k, "ROBAST", [q, d if self.rng.random() < 0.7 else self.rng.choice(docs)], {"ast": True}))
        # an escaped backslash followed by `u` in a name is two characters, not the start of a unicode escape; other
        # escape-adjacent shapes; evaluated, not only parsed
        BS = chr(92)
        edoc = o_(a=("i", 1), **{BS + "u": ("i", 2), "dir" + BS + "usr": ("i", 3)})
        for nm in (BS * 2 + "u", "dir" + BS * 2 + "usr", BS * 2 + "u1", BS * 2 + "ua\u00e9\u00e9", BS * 2 + "uD83Dsmile!", BS * 2 + "u00", BS * 2 + "uZZZZ", BS * 4 + "u0041", "a" + BS * 2,
                   BS * 2, BS + "u0041" + BS * 2 + "u", BS * 2 + "u" + BS * 2 + "u", "\u00e9" + BS * 2 + "u\u00e9"):
            for q in ("$['%s']" % nm, '$["%s"]' % nm, "$[?@['%s'] == 1]" % nm, "$..['%s']" % nm, "$['a','%s']" % nm):
                out.append(Case("u%d" % j, "ROB", [S(q), edoc], {"query": q}))
                j += 1
        # patterns made of literals, `.` and several `.*` on long subjects: linear for a real regular-expression engine
        ldoc = ("a", S("a" * 200), S("ab" * 5000), S("a" * 30 + "b"), S("abc"), ("i", 1))
        for pat in (".*a.*a.*a.*a.*a.*a.*b", ".*a.*b.*a.*c", "a.*a.*a.*a.*a.*a.*a.*a.*a.*c", ".*.*.*.*.*.*.*.*b", "(a*)*b", "(a|aa)+c", ".*a.*a.*a.*a.*a.*a.*a"):
            for fn in ("match", "search"):
                q = "$[?%s(@, '%s')]" % (fn, pat)
                out.append(Case("l%d" % j, "ROB", [S(q), ldoc], {"query": q}))
                j += 1
        # the listed known finding: unbounded recursion depth
        q = "$" + "[?@" * 5000 + "]" * 5000
        out.append(Case("known_d17", "ROB", [S(q), ("a",)], {"query": "$" + "[?@" * 3 + "... x5000", "d17": True}))
        return out

    @staticmethod
    def d26_shape(text):
        """function calls nested a dozen deep with comparisons in their arguments (the listed finding D26)"""
        import re
        return len(re.findall(r"[a-z][a-z0-9_]*\(", text)) >= 12 and any(op in text for op in ("==", "!=", "<", ">"))

    def run_witness(self, f):
        if f["class"] != "D26-exponential-backtracking":
            return True
        # growth of the parse time with the nesting depth, measured on the release harness: depth 13 against depth 10
        import subprocess
        from . import runner
        from .sx import dump
        def t_of(n):
            text = "$[?" + "foo(" * n + "1" + "==1)" * n + "]"
            line = "PARSE\tw%d\t%s\n" % (n, dump(S(text)))
            t0 = time.time()
            try:
                subprocess.run([runner.HARNESS_RELEASE], input=line, capture_output=True, text=True, timeout=120)
            except Exception:
                return 120.0
            return time.time() - t0
        try:
            t10 = min(t_of(10), t_of(10))
            t13 = t_of(13)
        except Exception:
            return False
        self.stats["d26_parse_seconds_depth10_depth13"] = [round(t10, 3), round(t13, 3)]
        return t13 > 4 * t10 and t13 > 0.5

    def release_may_differ(self, c, a, b):
        # the listed finding manifests as an abort in either build
        return bool(c.meta.get("d17")) and all(x and x[0] in ("ABORT", "TIMEOUT", "OK", "PARSE_ERR") for x in (a, b))

    def judge(self, c, ans):
        I, M = ans.get("I"), ans.get("M")
        key = sx_key(c)
        if not I:
            return Verdict("violation", detail="no answer from the worker")
        if c.meta.get("d17"):
            if I[0] in ("ABORT", "TIMEOUT"):
                self.count("known_D17")
                return Verdict("known", cls="D17-unbounded-recursion", detail="5000 nested filters: %s" % I[0], nontrivial=True, key=key)
            return Verdict("ok", detail="the D17 witness no longer aborts", nontrivial=True, key=key)
        if I[0] == "TIMEOUT" and self.d26_shape(c.meta.get("query_full", "") or c.meta.get("query", "")):
            self.count("known_D26")
            return Verdict("known", cls="D26-exponential-backtracking", detail="deeply nested function calls over comparisons: %s" % I[0], nontrivial=True, key=key)
        if I[0] in ("OK", "PARSE_ERR"):
            self.count("impl_" + I[0])
            if M and M[0] in ("OK", "PARSE_ERR") and M[0] != I[0]:
                return Verdict("stale", detail="parser model disagrees: %r vs %r" % (M, I), nontrivial=I[0] == "OK", key=key)
            return Verdict("ok", nontrivial=I[0] == "OK", key=key)
        return Verdict("violation", detail="%s on query %r (allowed: Ok, or Err from parsing only; never a panic, abort, hang or evaluation error)" % (I[0], c.meta.get("query", c.meta)), nontrivial=True, key=key)


def expect_loc_plain(l):
    """location string of the harness ($/i:3/n:39.100.39): no member name contains ' \\ or a control character"""
    for seg in l.split("/")[1:]:
        if seg.startswith("n:"):
            cps = [int(x) for x in seg[2:].split(".") if x != ""]
            if any(cp < 32 or cp in (39, 92) for cp in cps):
                return False
    return True


def loc_plain_text(path):
    """no escape sequence, quote inside a name or control character in the path text"""
    return "\\" not in path and all(ord(ch) >= 32 for ch in path)


REGISTRY = {"C01": C01, "C02": C02, "C03": C03, "C04": C04, "C05": C05, "C06": C06, "C07": C07, "C08": C08, "C09": C09, "C10": C10, "C11": C11, "C12": C12, "C13": C13, "C14": C14, "C15": C15}
NOT_YET = {}
