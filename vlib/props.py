"""Per-property checks: which cases are explored and how an answer triple is judged."""
import itertools
from .core import PropCheck, Case, Verdict, parse_items, locs, kflags
from .sx import S, unS
from . import gen

MAXI = 2**53 - 1


def arr(n):
    return ("a",) + tuple(("i", 10 + i) for i in range(n))


class C11(PropCheck):
    pid = "C11"
    design_ref = "DESIGN.md section 3, C11"
    technique = "Coq proof (induction on loop fuel, lia) + exhaustive small-scope correspondence"
    level_text = ("Unbounded Coq theorems: the two while-loops of process_slice equal the closed-form RFC 9535 "
                  "2.3.4.2.2 index sequence for every length >= 0 and every start/end/step in Z u {absent}; all "
                  "produced indices are in bounds; process_index is the RFC index rule; both loops stop within "
                  "len iterations. The model is tied to selector.rs by running the extracted model and the crate "
                  "on the exhaustive scope ({absent} u [-8,8])^3 x len 0..7 plus extremes on every run.")
    level_note = ("hand model of process_index/process_slice in Z (machine-range questions are C08's); "
                  "correspondence is differential testing; see evidence trusted_base")
    rule = ("EVAL cases $[start:end:step] and $[i] built as ASTs; quick: exhaustive (start,end,step) in "
            "({absent} u [-8,8])^3 x array length 0..7 plus extremes +-(2^53-1) and non-array documents; "
            "non-trivial = the RFC result is non-empty; distinct = distinct (len,start,end,step) / (len,i)")

    def cases(self):
        out = []
        rng_vals = [None] + list(range(-8, 9))
        n = 0
        lens = range(0, 8)
        triples = list(itertools.product(rng_vals, rng_vals, rng_vals))
        if self.tier == "quick":
            # all triples, each on every length
            pass
        ext = [None, 0, 1, -1, 2, -2, MAXI, -MAXI, MAXI - 1, -(MAXI - 1), 7, -7, 8, -8, 6, -6]
        triples_ext = [t for t in itertools.product(ext, ext, ext) if any(isinstance(x, int) and abs(x) > 8 for x in t)]
        if self.tier == "quick":
            triples_ext = self.rng.sample(triples_ext, 1500)
        for L in lens:
            d = arr(L)
            for (a, b, c) in triples:
                out.append(Case("s%d" % n, "EVAL", [("q", ("sel", ("slice", a, b, c))), d], {"len": L, "slice": [a, b, c]}))
                n += 1
        for (a, b, c) in triples_ext:
            L = self.rng.randrange(0, 8)
            out.append(Case("x%d" % n, "EVAL", [("q", ("sel", ("slice", a, b, c))), arr(L)], {"len": L, "slice": [a, b, c]}))
            n += 1
        idxs = list(range(-10, 11)) + [MAXI, -MAXI, 2**31, -2**31, 2**32, -2**32]
        for L in range(0, 9):
            for i in idxs:
                out.append(Case("i%d" % n, "EVAL", [("q", ("sel", ("idx", i))), arr(L)], {"len": L, "idx": i}))
                n += 1
        # non-arrays select nothing; nested arrays; slices in multi-selector and descendant position
        others = ["null", ("b", 1), ("i", 3), S("abc"), ("o", (S("0"), ("i", 1)), (S("a"), ("i", 2))), ("o",)]
        for d in others:
            for sel in [("slice", None, None, None), ("slice", 0, 2, 1), ("slice", None, None, -1), ("idx", 0), ("idx", -1), ("slice", 1, None, 0)]:
                out.append(Case("n%d" % n, "EVAL", [("q", ("sel", sel)), d], {"non_array": True}))
                n += 1
        nested = ("a", arr(3), arr(0), ("a", arr(2), ("i", 5)), S("x"), arr(5))
        for sel in [("slice", None, None, 2), ("slice", -2, None, None), ("slice", None, None, -2), ("idx", -1), ("slice", 4, 0, -3)]:
            out.append(Case("d%d" % n, "EVAL", [("q", ("desc", ("sel", sel))), nested], {"nested": True}))
            n += 1
            out.append(Case("w%d" % n, "EVAL", [("q", ("sel", "wild"), ("sel", sel)), nested], {"nested": True}))
            n += 1
        self.exhaustive = True
        return out

    def judge(self, c, ans):
        I, M, R = parse_items(ans.get("I")), parse_items(ans.get("M")), parse_items(ans.get("R"))
        key = str(c.meta)
        nontrivial = isinstance(R, list) and len(R) > 0
        if isinstance(I, str) or isinstance(R, str):
            return Verdict("violation", detail="impl=%r rfc=%r" % (I, R), nontrivial=nontrivial, key=key)
        if locs(I) == locs(R):
            if M != I and locs(M) != locs(I):
                return Verdict("stale", detail="model differs from impl and RFC", nontrivial=nontrivial, key=key)
            return Verdict("ok", nontrivial=nontrivial, key=key)
        return Verdict("violation", detail="impl selects %r, RFC 9535 selects %r (model %r)" % (locs(I), locs(R), locs(M)),
                       nontrivial=nontrivial, key=key)


REGISTRY = {"C11": C11}
NOT_YET = {}
