"""Proof obligations of a property: build its Coq cone (full .vo), scan the development for
escape hatches, read Print Assumptions under every property theorem."""
import os
import re
import subprocess
from . import build

COQ = build.COQ
FORBIDDEN = re.compile(r"\b(Admitted|admit|Axiom|Axioms|Parameter|Parameters|Conjecture|Hypothesis|Hypotheses|Variable|Variables)\b|Unset\s+Guard|bypass_check|type-in-type|impredicative-set|Admit\s+Obligations|Unset\s+Positivity|Unset\s+Universe")
ALLOWED_AXIOMS = set()      # names Print Assumptions may list; empty: every theorem must be closed


def strip_comments(text):
    out, depth, i = [], 0, 0
    while i < len(text):
        if text.startswith("(*", i):
            depth += 1
            i += 2
        elif text.startswith("*)", i) and depth > 0:
            depth -= 1
            i += 2
        else:
            if depth == 0:
                out.append(text[i])
            i += 1
    return "".join(out)


def scan_sources():
    """forbidden declarations anywhere in the development (section-local Variable/Hypothesis
    are allowed: they are discharged when the section closes)"""
    bad = []
    for root, _, files in os.walk(COQ):
        for fn in files:
            if not fn.endswith(".v"):
                continue
            path = os.path.join(root, fn)
            text = strip_comments(open(path).read())
            depth = 0
            for ln, line in enumerate(text.splitlines(), 1):
                if re.match(r"\s*Section\b", line):
                    depth += 1
                if re.match(r"\s*End\b", line) and depth > 0:
                    depth -= 1
                for m in FORBIDDEN.finditer(line):
                    w = m.group(0)
                    if w.split()[0] in ("Variable", "Variables", "Hypothesis", "Hypotheses") and depth > 0:
                        continue
                    bad.append("%s:%d: %s" % (os.path.relpath(path, COQ), ln, w))
    return bad


def count_qed(files):
    n = 0
    for f in files:
        p = os.path.join(COQ, f)
        if os.path.exists(p):
            n += len(re.findall(r"\b(Qed|Defined)\.", strip_comments(open(p).read())))
    return n


def cone_files(target_v):
    """the .v files the property file depends on (transitively), via coqdep"""
    p = subprocess.run(["coqdep", "-Q", ".", "JP", "-sort", target_v], cwd=COQ, capture_output=True, text=True)
    files = [f for f in p.stdout.split() if f.endswith(".v")]
    return [os.path.normpath(f) for f in files] or [target_v]


def theorems_of(prop_file):
    text = strip_comments(open(os.path.join(COQ, prop_file)).read())
    return re.findall(r"^\s*(?:Theorem|Corollary)\s+([A-Za-z0-9_']+)", text, re.M)


def coqchk(prop, timeout=1800):
    """independent re-check of the compiled property file and everything it depends on"""
    p = subprocess.run(["coqchk", "-o", "-silent", "-Q", COQ, "JP", "JP.Properties.%s" % prop],
                       capture_output=True, text=True, timeout=timeout, cwd=COQ)
    out = p.stdout + p.stderr
    ok = p.returncode == 0 and "Axioms: <none>" in out and "type-in-type: <none>" in out \
        and "unsafe (co)fixpoints: <none>" in out and "positivity is assumed: <none>" in out
    return ok, out[-1500:]


def check(prop, tier="quick"):
    """returns dict(ok, obligations, discharged, theorems, assumptions, error)"""
    prop_file = "Properties/%s.v" % prop
    res = {"ok": False, "obligations": 0, "discharged": 0, "theorems": [], "assumptions": {}, "error": None,
           "checker_cmd": "make -C coq Properties/%s.vo (coqc 8.16.1, full .vo) + Print Assumptions + source scan" % prop}
    bad = scan_sources()
    if bad:
        res["error"] = "forbidden declarations: " + "; ".join(bad[:10])
        return res
    files = cone_files(prop_file)
    if count_qed(files) == 0:
        # coqdep could not be run or answered with paths we cannot read: fall back to the generated
        # files being in place first, then to the whole development
        try:
            with build.Lock():
                build.generate()
        except build.BuildError:
            pass
        files = cone_files(prop_file)
        if count_qed(files) == 0:
            files = sorted(os.path.relpath(os.path.join(r, f), COQ) for r, _, fs in os.walk(COQ) for f in fs if f.endswith(".v"))
    res["obligations"] = count_qed(files)
    res["cone"] = files
    try:
        with build.Lock():
            build.generate()
            build.coq(["Properties/%s.vo" % prop])
    except build.BuildError as e:
        res["error"] = "coq build failed at %s:\n%s" % (e.stage, e.log[-3000:])
        # the location printed immediately before the first "Error" line (warnings print locations too)
        m = None
        for mm in re.finditer(r'File "\./([^"]+)", line (\d+)[^\n]*\n(Error|[^\n]*\nError)', e.log):
            m = mm
            break
        if m is None:
            m = re.search(r'File "\./([^"]+)", line (\d+)', e.log)
        res["failed_at"] = "%s:%s" % (m.group(1), m.group(2)) if m else None
        return res
    ths = theorems_of(prop_file)
    res["theorems"] = ths
    probe = os.path.join(build.BUILD, "assum_%s.v" % prop)
    with open(probe, "w") as f:
        f.write("From JP Require Import Properties.%s.\n" % prop)
        for t in ths:
            f.write('Print Assumptions %s.\n' % t)
    p = subprocess.run(["coqc", "-Q", COQ, "JP", probe], capture_output=True, text=True, timeout=600, cwd=build.BUILD)
    if p.returncode != 0:
        res["error"] = "Print Assumptions probe failed: " + p.stderr[-2000:]
        return res
    chunks = re.split(r"(?=Closed under the global context|Axioms:)", p.stdout)
    chunks = [c for c in chunks if c.strip()]
    ok = True
    for t, c in zip(ths, chunks):
        if c.startswith("Closed under"):
            res["assumptions"][t] = []
        else:
            names = re.findall(r"^([A-Za-z0-9_.']+)\s*:", c, re.M)
            res["assumptions"][t] = names
            if any(n not in ALLOWED_AXIOMS for n in names):
                ok = False
    if len(chunks) != len(ths):
        ok = False
        res["error"] = "could not read Print Assumptions for every theorem"
    if not ok and not res["error"]:
        res["error"] = "a property theorem depends on axioms outside the allowlist: %r" % res["assumptions"]
    if ok and tier == "thorough":
        try:
            cok, cout = coqchk(prop)
        except subprocess.TimeoutExpired:
            cok, cout = False, "coqchk timed out"
        res["coqchk"] = "ok: no axioms, no type-in-type, no unsafe fixpoints, no assumed positivity" if cok else cout
        res["checker_cmd"] += " + coqchk -o -silent JP.Properties.%s" % prop
        if not cok:
            ok = False
            res["error"] = "coqchk does not accept the compiled development: " + cout[-800:]
    res["ok"] = ok
    res["discharged"] = res["obligations"] if ok else 0
    return res
