"""S-expression interchange (DESIGN.md appendix A): python tuples <-> text.

A query AST, a document and a string are nested tuples whose first element is the constructor
keyword; atoms are ints or keywords.  Strings travel as lists of code points, so no escaping is
ever needed."""


def S(text):
    """string -> ('s', cp, cp, ...)"""
    return ("s",) + tuple(ord(c) for c in text)


def unS(t):
    assert t[0] == "s", t
    return "".join(chr(c) for c in t[1:])


def dump(t):
    if isinstance(t, tuple):
        return "(" + " ".join(dump(x) for x in t) + ")"
    if isinstance(t, bool):
        return "1" if t else "0"
    if t is None:
        return "n"
    return str(t)


def parse(text):
    pos = 0
    n = len(text)

    def item():
        nonlocal pos
        while pos < n and text[pos] == " ":
            pos += 1
        if text[pos] == "(":
            pos += 1
            items = []
            while True:
                while pos < n and text[pos] == " ":
                    pos += 1
                if text[pos] == ")":
                    pos += 1
                    return tuple(items)
                items.append(item())
        st = pos
        while pos < n and text[pos] not in " ()":
            pos += 1
        a = text[st:pos]
        try:
            return int(a)
        except ValueError:
            return a

    r = item()
    return r


def canon_flt(m, e):
    """canonical dyadic: odd mantissa (or 0 0)"""
    if m == 0:
        return (0, 0)
    while m % 2 == 0:
        m //= 2
        e += 1
    return (m, e)


def canon(t):
    """canonicalise float literals inside an AST s-expression (for comparing parse results)"""
    if isinstance(t, tuple):
        if len(t) == 3 and t[0] in ("flt", "f") and isinstance(t[1], int) and isinstance(t[2], int):
            m, e = canon_flt(t[1], t[2])
            return (t[0], m, e)
        return tuple(canon(x) for x in t)
    return t
