"""Builds everything a check needs from /repo's current working tree and /verif's sources:
generated Coq files, the Coq development (full .vo build of the property's cone), the extracted
OCaml driver, the Rust harness.  Serialised by a file lock; incremental (make / cargo)."""
import fcntl
import os
import shutil
import subprocess
import sys
import time

VERIF = os.path.dirname(os.path.dirname(os.path.abspath(__file__)))
REPO = os.environ.get("VERIF_REPO", "/repo")
BUILD = os.path.join(VERIF, "build")
COQ = os.path.join(VERIF, "coq")
GUARD = "jsonpath_rust_verif"


class BuildError(Exception):
    def __init__(self, stage, log):
        super().__init__(stage)
        self.stage = stage
        self.log = log


def sh(cmd, cwd, timeout, env=None, stage="build"):
    e = dict(os.environ)
    e.update({"CARGO_NET_OFFLINE": "true"})
    if env:
        e.update(env)
    try:
        p = subprocess.run(cmd, cwd=cwd, env=e, capture_output=True, text=True, timeout=timeout)
    except subprocess.TimeoutExpired as ex:
        raise BuildError(stage, "TIMEOUT after %ss: %s" % (timeout, " ".join(cmd)))
    if p.returncode != 0:
        raise BuildError(stage, (p.stdout[-6000:] + "\n" + p.stderr[-6000:]))
    return p.stdout + p.stderr


class Lock:
    def __enter__(self):
        os.makedirs(BUILD, exist_ok=True)
        self.f = open(os.path.join(BUILD, ".lock"), "w")
        fcntl.flock(self.f, fcntl.LOCK_EX)
        return self

    def __exit__(self, *a):
        fcntl.flock(self.f, fcntl.LOCK_UN)
        self.f.close()


def generate():
    """translators that run on every check: the pest grammar and the shared-state footprint"""
    gen = os.path.join(COQ, "gen")
    os.makedirs(gen, exist_ok=True)
    tools = os.path.join(VERIF, "tools")
    for script, out in (("pest2coq.py", "Grammar.v"), ("footprint.py", "Footprint.v")):
        sp = os.path.join(tools, script)
        if not os.path.exists(sp):
            continue
        text = sh([sys.executable, sp, REPO], VERIF, 60, stage="translate:" + script)
        path = os.path.join(gen, out)
        old = open(path).read() if os.path.exists(path) else None
        if old != text:                      # keep mtime when unchanged: make stays incremental
            with open(path, "w") as f:
                f.write(text)


def coq(targets=None, timeout=1500):
    """full .vo build (never -vos) of the given targets (default: everything)"""
    if not os.path.exists(os.path.join(COQ, "Makefile")) or \
            os.path.getmtime(os.path.join(COQ, "Makefile")) < os.path.getmtime(os.path.join(COQ, "_CoqProject")):
        sh(["coq_makefile", "-f", "_CoqProject", "-o", "Makefile"], COQ, 60, stage="coq_makefile")
    cmd = ["make", "-j16"] + (targets or [])
    return sh(cmd, COQ, timeout, stage="coq")


def extract():
    out = os.path.join(BUILD, "extract")
    os.makedirs(out, exist_ok=True)
    coq(["Extract.vo"])
    srcs = [os.path.join(COQ, "model.ml"), os.path.join(COQ, "model.mli"),
            os.path.join(VERIF, "extract", "driver.ml")]
    drv = os.path.join(out, "driver")
    if os.path.exists(drv) and all(os.path.getmtime(s) <= os.path.getmtime(drv) for s in srcs):
        return
    for s in srcs:
        shutil.copy(s, out)
    sh(["ocamlfind", "ocamlopt", "-O3", "-w", "-a", "-package", "str", "model.mli", "model.ml",
        "driver.ml", "-o", "driver"], out, 600, stage="ocaml")


def harness(release=False, features=None):
    h = os.path.join(VERIF, "harness")
    lock = os.path.join(h, "Cargo.lock")
    src = os.path.join(REPO, "Cargo.lock")
    if os.path.exists(src) and (not os.path.exists(lock)):
        shutil.copy(src, lock)
    cmd = ["cargo", "build", "--offline"] + (["--release"] if release else [])
    target = os.path.join(BUILD, "cargo")
    if features:
        cmd += ["--features", features]
        target = os.path.join(BUILD, "cargo-" + features)
    env = {"CARGO_TARGET_DIR": target, "RUSTFLAGS": "--cfg " + GUARD}
    return sh(cmd, h, 1500, env=env, stage="cargo")


def build_all(coq_targets=None, release=False, log=None, features=None):
    t0 = time.time()
    with Lock():
        generate()
        coq(coq_targets)
        extract()
        harness(False, features)
        if release:
            harness(True, features)
    return time.time() - t0


if __name__ == "__main__":
    try:
        dt = build_all(release="--release" in sys.argv)
        print("build ok in %.1fs" % dt)
    except BuildError as e:
        print("BUILD FAILED at %s\n%s" % (e.stage, e.log))
        sys.exit(2)
