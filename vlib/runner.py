"""Runs the extracted model (OCaml driver) and the real crate (Rust harness) on one case file,
sharded over worker processes, and collects their answers by case id."""
import os
import subprocess
import tempfile
from concurrent.futures import ThreadPoolExecutor

VERIF = os.path.dirname(os.path.dirname(os.path.abspath(__file__)))
BUILD = os.path.join(VERIF, "build")
DRIVER = os.path.join(BUILD, "extract", "driver")
HARNESS_DEBUG = os.path.join(BUILD, "cargo", "debug", "jpharness")
HARNESS_RELEASE = os.path.join(BUILD, "cargo", "release", "jpharness")
NPROC = min(16, os.cpu_count() or 4)


def _run_driver(lines):
    p = subprocess.run([DRIVER], input="".join(lines), capture_output=True, text=True)
    out = p.stdout.splitlines()
    if p.returncode != 0:
        out.append("__driver__\tM\tDRIVERFAIL\t%s" % p.stderr[-300:].replace("\n", " "))
    return out


def _communicate_idle(binary, data, idle, total):
    """runs the harness on [data]; gives up when it has printed nothing for [idle] seconds (it prints a BEGIN line before
    every case and an answer after it) or after [total] seconds.  Returns (stdout lines, return code, timed_out)."""
    import select
    import time
    with tempfile.TemporaryFile() as tf:
        tf.write(data.encode("utf-8"))
        tf.seek(0)
        p = subprocess.Popen([binary], stdin=tf, stdout=subprocess.PIPE, stderr=subprocess.DEVNULL)
        fd = p.stdout.fileno()
        buf = []
        start = last = time.time()
        timed_out = False
        while True:
            r, _, _ = select.select([fd], [], [], 1.0)
            if r:
                chunk = os.read(fd, 1 << 16)
                if not chunk:
                    break
                buf.append(chunk)
                last = time.time()
                continue
            now = time.time()
            if now - last > idle or now - start > total:
                timed_out = True
                p.kill()
                break
        p.wait()
        if timed_out:
            try:
                while True:
                    chunk = os.read(fd, 1 << 16)
                    if not chunk:
                        break
                    buf.append(chunk)
            except OSError:
                pass
        p.stdout.close()
    return b"".join(buf).decode("utf-8", "replace").splitlines(), (-9 if timed_out else p.returncode), timed_out


def _run_harness(lines, binary, timeout_per_case=10.0):
    """The harness prints '<id> I BEGIN' before each case, so that a process death (stack
    overflow, abort) or a hang is attributed to the case that caused it; the rest is re-run."""
    out = []
    rest = list(lines)
    hangs_here = 0
    while rest:
        got, rc, timed_out = _communicate_idle(binary, "".join(rest), IDLE_TIMEOUT,
                                               max(30.0, timeout_per_case * len(rest) / 50.0 + 30.0))
        begun = [l.split("\t")[0] for l in got if l.endswith("\tI\tBEGIN")]
        answered = set(l.split("\t")[0] for l in got if "\tI\t" in l and not l.endswith("\tI\tBEGIN"))
        out.extend(l for l in got if not l.endswith("\tI\tBEGIN"))
        if rc == 0 and not timed_out:
            break
        # the case that was begun but not answered killed the process
        culprit = None
        for b in begun:
            if b not in answered:
                culprit = b
        ids = [l.split("\t")[1] for l in rest]
        if culprit is None or culprit not in ids:
            out.append("__harness__\tI\tHARNESSFAIL\trc=%s" % rc)
            break
        verdict = "TIMEOUT" if timed_out else "ABORT"
        if timed_out and HANGS["confirmed"] >= 3:
            # three hangs are already confirmed in this run: nothing more is learnt from this shard
            out.extend("%s\tI\tSKIPPED_AFTER_HANGS" % i for i in ids[ids.index(culprit):])
            break
        if timed_out:
            # a shard on a loaded machine can exceed its budget without any case hanging: the case gets a process and a
            # generous budget of its own before it is called a hang
            # (once one hang has been confirmed with the full budget the run is failing anyway: later suspects get a short
            # budget, and a shard that has produced two hangs, or times out after three hangs are confirmed anywhere, is abandoned - its remaining cases are reported as SKIPPED -
            # so that a change which makes hundreds of cases hang is reported in minutes, not hours)
            budget = CONFIRM_TIMEOUT if not HANGS["confirmed"] else CONFIRM_SHORT
            try:
                p1 = subprocess.run([binary], input=rest[ids.index(culprit)], capture_output=True, text=True, timeout=budget)
                alone = [l for l in p1.stdout.splitlines() if "\tI\t" in l and not l.endswith("\tI\tBEGIN")]
                if p1.returncode == 0 and alone:
                    out.extend(alone)
                    verdict = None
                elif p1.returncode != 0:
                    verdict = "ABORT"
            except subprocess.TimeoutExpired:
                HANGS["confirmed"] += 1
                hangs_here += 1
        if verdict:
            out.append("%s\tI\t%s" % (culprit, verdict))
        rest = rest[ids.index(culprit) + 1:]
        if hangs_here >= 2:
            out.extend("%s\tI\tSKIPPED_AFTER_HANGS" % i for i in ids[ids.index(culprit) + 1:])
            break
    return out


CONFIRM_TIMEOUT = 120.0   # seconds a single case may take, alone, before it counts as a hang
IDLE_TIMEOUT = 60.0      # seconds without any output (a BEGIN line or an answer) before the current case is suspected
CONFIRM_SHORT = 10.0      # the same, once a hang has been confirmed in this run
HANGS = {"confirmed": 0}
ISOLATE = False      # set by a check whose cases must each run in a fresh process
FEATURES = None      # set by a check that needs a harness built with a cargo feature


def run_cases(lines, release=False, want_model=True, want_impl=True, nshards=None):
    """lines: list of case lines (with trailing newline).  Returns {id: {tag: [fields...]}}"""
    nshards = nshards or max(1, min(NPROC, len(lines) // 50 + 1))
    shards = [lines[i::nshards] for i in range(nshards)]
    if ISOLATE:
        shards = [[l] for l in lines]          # one fresh process per case
    binary = HARNESS_RELEASE if release else HARNESS_DEBUG
    if FEATURES:
        binary = binary.replace(os.path.join(BUILD, "cargo"), os.path.join(BUILD, "cargo-" + FEATURES))
    res = {}
    with ThreadPoolExecutor(max_workers=2 * NPROC) as ex:
        futs = []
        for sh in shards:
            if not sh:
                continue
            if want_model:
                futs.append(ex.submit(_run_driver, sh))
            if want_impl:
                futs.append(ex.submit(_run_harness, sh, binary))
        for f in futs:
            for l in f.result():
                parts = l.split("\t")
                if len(parts) < 3:
                    continue
                res.setdefault(parts[0], {})[parts[1]] = parts[2:]
    return res
