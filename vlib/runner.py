"""Runs the extracted model (OCaml driver) and the real crate (Rust harness) on one case file,
sharded over worker processes, and collects their answers by case id."""
import os
import subprocess
import tempfile
from concurrent.futures import ThreadPoolExecutor

VERIF = os.path.dirname(os.path.dirname(os.path.abspath(__file__)))
BUILD = os.path.join(VERIF, "build")
DRIVER = os.path.join(BUILD, "extract", "driver")
HARNESS_DEBUG = os.path.join(BUILD, "cargo", "debug", "jpharness")
HARNESS_RELEASE = os.path.join(BUILD, "cargo", "release", "jpharness")
NPROC = min(16, os.cpu_count() or 4)


def _run_driver(lines):
    p = subprocess.run([DRIVER], input="".join(lines), capture_output=True, text=True)
    out = p.stdout.splitlines()
    if p.returncode != 0:
        out.append("__driver__\tM\tDRIVERFAIL\t%s" % p.stderr[-300:].replace("\n", " "))
    return out


def _run_harness(lines, binary, timeout_per_case=10.0):
    """The harness prints '<id> I BEGIN' before each case, so that a process death (stack
    overflow, abort) or a hang is attributed to the case that caused it; the rest is re-run."""
    out = []
    rest = list(lines)
    while rest:
        try:
            p = subprocess.run([binary], input="".join(rest), capture_output=True, text=True,
                               timeout=max(30.0, timeout_per_case * len(rest) / 50.0 + 30.0))
            got = p.stdout.splitlines()
            rc = p.returncode
            timed_out = False
        except subprocess.TimeoutExpired as e:
            got = (e.stdout or b"").decode("utf-8", "replace").splitlines() if isinstance(e.stdout, bytes) else (e.stdout or "").splitlines()
            rc = -9
            timed_out = True
        begun = [l.split("\t")[0] for l in got if l.endswith("\tI\tBEGIN")]
        answered = set(l.split("\t")[0] for l in got if "\tI\t" in l and not l.endswith("\tI\tBEGIN"))
        out.extend(l for l in got if not l.endswith("\tI\tBEGIN"))
        if rc == 0 and not timed_out:
            break
        # the case that was begun but not answered killed the process
        culprit = None
        for b in begun:
            if b not in answered:
                culprit = b
        ids = [l.split("\t")[1] for l in rest]
        if culprit is None or culprit not in ids:
            out.append("__harness__\tI\tHARNESSFAIL\trc=%s" % rc)
            break
        verdict = "TIMEOUT" if timed_out else "ABORT"
        if timed_out:
            # a shard on a loaded machine can exceed its budget without any case hanging: the case gets a process and a
            # generous budget of its own before it is called a hang
            try:
                p1 = subprocess.run([binary], input=rest[ids.index(culprit)], capture_output=True, text=True, timeout=CONFIRM_TIMEOUT)
                alone = [l for l in p1.stdout.splitlines() if "\tI\t" in l and not l.endswith("\tI\tBEGIN")]
                if p1.returncode == 0 and alone:
                    out.extend(alone)
                    verdict = None
                elif p1.returncode != 0:
                    verdict = "ABORT"
            except subprocess.TimeoutExpired:
                pass
        if verdict:
            out.append("%s\tI\t%s" % (culprit, verdict))
        rest = rest[ids.index(culprit) + 1:]
    return out


CONFIRM_TIMEOUT = 300.0   # seconds a single case may take, alone, before it counts as a hang
ISOLATE = False      # set by a check whose cases must each run in a fresh process
FEATURES = None      # set by a check that needs a harness built with a cargo feature


def run_cases(lines, release=False, want_model=True, want_impl=True, nshards=None):
    """lines: list of case lines (with trailing newline).  Returns {id: {tag: [fields...]}}"""
    nshards = nshards or max(1, min(NPROC, len(lines) // 50 + 1))
    shards = [lines[i::nshards] for i in range(nshards)]
    if ISOLATE:
        shards = [[l] for l in lines]          # one fresh process per case
    binary = HARNESS_RELEASE if release else HARNESS_DEBUG
    if FEATURES:
        binary = binary.replace(os.path.join(BUILD, "cargo"), os.path.join(BUILD, "cargo-" + FEATURES))
    res = {}
    with ThreadPoolExecutor(max_workers=2 * NPROC) as ex:
        futs = []
        for sh in shards:
            if not sh:
                continue
            if want_model:
                futs.append(ex.submit(_run_driver, sh))
            if want_impl:
                futs.append(ex.submit(_run_harness, sh, binary))
        for f in futs:
            for l in f.result():
                parts = l.split("\t")
                if len(parts) < 3:
                    continue
                res.setdefault(parts[0], {})[parts[1]] = parts[2:]
    return res
