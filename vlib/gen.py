"""Case generators: documents, query ASTs (in the shape the parser produces, plus programmatic
variants), renderings of an AST to concrete query strings under a random layout.

Every random choice comes from one random.Random seeded by the caller (VERIF_SEED)."""
import random
from fractions import Fraction
from .sx import S, unS, canon_flt

MAXI = 2**53 - 1

# ---------- value universe ----------
def flt(x):
    """python float -> ('f', m, e) exact"""
    fr = Fraction(x)
    m, d = fr.numerator, fr.denominator
    e = -(d.bit_length() - 1)
    assert d == 1 << (-e)
    m, e = canon_flt(m, e)
    return ("f", m, e)

INTS = [0, 1, -1, 2, 3, 5, 10, 100, -7, MAXI, -MAXI, 2**53, 42]
FLOATS = [0.0, 0.5, 1.0, 1.5, 2.0, -1.0, 0.1, 0.1 + 2**-56, 1e-20, 2e-20, 1e300, 100.0, 2.5, 3.0, 10.0]
STRS = ["", "a", "ab", "b", "abc", "A", "é", "\U0001F600", "￿", "a b", "0", "ac", "cb", "ba", "x", "a\x7fb", "\x80", "\x9f\xa0", "\U0010ffff\U000b1234"]
PLAIN_NAMES = ["a", "b", "c", "d", "key", "k1", "_x", "é", "\U0001F600", "ab"]
ODD_NAMES = ["0", "1", " ", "a b", "a.b", "*", "$", "@", "-1", "01", "a,b", "[0]", "", "a\x7f", "\x85x", "k\xa0", "\u2028",
             "\U0010ffff", "p\U000a0000", "\U000fabcd\ud7ff\ue000", "\U00010000\U0001ffff"]   # need bracket notation, still plain
HOSTILE_NAMES = ["a'b", "a\\b", "a/b", "a~b", "~0", "~1", "'a'", '"a"', "a\tb", "a\nb", "'", '"', "\\", "\u0001", "a\"b", "\\n", "\\t"]


class Profile:
    """knobs of the generators; every check sets what its property is about"""
    def __init__(self, **kw):
        self.max_depth = 3          # document nesting
        self.max_width = 4
        self.names = PLAIN_NAMES[:5]
        self.odd_names = False
        self.hostile_names = False
        self.selectors = ["name", "wild", "idx", "slice", "filter"]
        self.multi = True           # multi-selector segments
        self.desc = True
        self.max_segments = 3
        self.filter_depth = 2
        self.functions = ["length", "count", "value"]
        self.custom = False
        self.regex = False
        self.dq_names = True        # double-quoted name selectors
        self.big_ints = False
        self.floats = True
        self.programmatic = False   # AST shapes the parser never builds (Selectors of one, Or of one ...)
        self.__dict__.update(kw)


class Gen:
    def __init__(self, rng, prof=None):
        self.r = rng
        self.p = prof or Profile()

    # ----- documents -----
    def names(self):
        ns = list(self.p.names)
        if self.p.odd_names:
            ns += ODD_NAMES
        if self.p.hostile_names:
            ns += HOSTILE_NAMES
        return ns

    def scalar(self):
        r = self.r
        k = r.randrange(10)
        if k == 0:
            return "null"
        if k == 1:
            return ("b", r.randrange(2))
        if k <= 4:
            pool = (INTS + [2**63 - 1, 2**63, 2**64 - 1, -2**63, 2**53 + 1]) if self.p.big_ints else [i for i in INTS if abs(i) < 2**53]
            return ("i", r.choice(pool))
        if k <= 6 and self.p.floats:
            return flt(r.choice(FLOATS))
        return S(r.choice(STRS))

    def doc(self, depth=None):
        r = self.r
        depth = self.p.max_depth if depth is None else depth
        if depth <= 0 or r.random() < 0.25:
            return self.scalar()
        w = r.randrange(0, self.p.max_width + 1)
        if r.random() < 0.5:
            return ("a",) + tuple(self.doc(depth - 1) for _ in range(w))
        ns = self.names()
        ks = r.sample(ns, min(w, len(ns)))
        ks.sort(key=lambda k: [ord(c) for c in k])      # BTreeMap order = code point order
        return ("o",) + tuple((S(k), self.doc(depth - 1)) for k in ks)

    # ----- queries -----
    def raw_name(self, quoted=False):
        """raw selector text: shorthand, 'x' or "x"; mostly names that occur in the document"""
        r = self.r
        dn = getattr(self, "doc_names", None)
        if dn and r.random() < 0.8:
            k = r.choice(dn)
        else:
            k = r.choice(self.names())
        return self.spell_name(k, quoted)

    def pair(self):
        """a document and a query directed at it (names and literal values drawn from it)"""
        d = self.doc()
        names, vals = [], []
        def walk(t):
            if isinstance(t, tuple) and t and t[0] == "o":
                for k, v in t[1:]:
                    names.append(unS(k))
                    walk(v)
            elif isinstance(t, tuple) and t and t[0] == "a":
                for v in t[1:]:
                    walk(v)
            else:
                vals.append(t)
        walk(d)
        self.doc_names = names
        self.doc_vals = vals
        q = self.query()
        self.doc_names = None
        self.doc_vals = None
        if self.r.random() < 0.12:
            d = self.add_decoys(d, q)
        return q, d

    def add_decoys(self, d, q):
        """members whose NAME is the raw spelling of a quoted name selector of the query (quotes, escapes and all), next to the
        member the selector denotes: code that matches spellings instead of names picks the wrong one"""
        raws = set()
        def names_of(t):
            if isinstance(t, tuple) and t:
                if t[0] in ("name", "n") and len(t) == 2 and isinstance(t[1], tuple) and t[1] and t[1][0] == "s":
                    raw = unS(t[1])
                    if raw[:1] in ("'", '"') and len(raw) >= 2:
                        raws.add(raw)
                for x in t[1:]:
                    names_of(x)
        names_of(q)
        if not raws:
            return d
        def walk(t):
            if isinstance(t, tuple) and t and t[0] == "o":
                members = [(unS(k), walk(v)) for k, v in t[1:]]
                have = set(k for k, _ in members)
                for raw in raws:
                    inner = raw[1:-1]
                    if (inner in have or self.r.random() < 0.2) and raw not in have:
                        members.append((raw, ("i", 777)))
                        have.add(raw)
                members.sort(key=lambda kv: [ord(c) for c in kv[0]])
                return ("o",) + tuple((S(k), v) for k, v in members)
            if isinstance(t, tuple) and t and t[0] == "a":
                return ("a",) + tuple(walk(v) for v in t[1:])
            return t
        return walk(d)

    def spell_name(self, k, quoted=False):
        r = self.r
        shorthand_ok = (not quoted) and k != "" and all(c.isalpha() or c == "_" or ord(c) >= 0x80 or (c.isdigit() and i > 0) for i, c in enumerate(k)) \
            and all(ord(c) < 0xD800 or ord(c) > 0xDFFF for c in k) and all((not c.isalpha()) or ord(c) >= 0x80 or c.isascii() for c in k)
        if shorthand_ok and not any(c.isascii() and not (c.isalnum() or c == "_") for c in k) and r.random() < 0.5:
            return k
        q = "'" if (not self.p.dq_names or r.random() < 0.7) else '"'
        body = ""
        for c in k:
            if c == q or c == "\\":
                body += "\\" + c
            elif ord(c) < 0x20:
                body += {"\b": "\\b", "\f": "\\f", "\n": "\\n", "\r": "\\r", "\t": "\\t"}.get(c, "\\u%04x" % ord(c))
            else:
                body += c
        return q + body + q

    def small_int(self):
        r = self.r
        if r.random() < 0.08:
            return r.choice([MAXI, -MAXI, MAXI - 1, 2**31, -2**31, 2**32, 2**52])
        return r.randrange(-4, 5)

    def selector(self, fdepth, quoted=False):
        r = self.r
        kinds = [k for k in self.p.selectors if k != "filter" or fdepth > 0]
        k = r.choice(kinds)
        if k == "name":
            return ("name", S(self.raw_name(quoted)))
        if k == "wild":
            return "wild"
        if k == "idx":
            return ("idx", self.small_int())
        if k == "slice":
            f = lambda: None if r.random() < 0.35 else self.small_int()
            return ("slice", f(), f(), f())
        return ("filter", self.filter(fdepth - 1))

    def segment(self, fdepth):
        r = self.r
        if self.p.multi and r.random() < 0.25:
            n = r.randrange(2, 4)
            inner = ("sels",) + tuple(self.selector(fdepth, quoted=r.random() < 0.9) for _ in range(n))
        elif self.p.programmatic and r.random() < 0.1:
            inner = ("sels", self.selector(fdepth))
        else:
            inner = ("sel", self.selector(fdepth))
        if self.p.desc and r.random() < 0.2:
            return ("desc", inner)
        return inner

    def segments(self, fdepth, maxn=None):
        n = self.r.randrange(0, (maxn or self.p.max_segments) + 1)
        return tuple(self.segment(fdepth) for _ in range(n))

    def query(self):
        return ("q",) + self.segments(self.p.filter_depth)

    def literal(self):
        r = self.r
        dv = getattr(self, "doc_vals", None)
        if dv and r.random() < 0.5:
            v = r.choice(dv)
            if v == "null":
                return "null"
            if v[0] == "b":
                return ("bool", v[1])
            if v[0] == "i" and abs(v[1]) <= MAXI:
                return ("int", v[1])
            if v[0] == "f":
                return ("flt", v[1], v[2])
            if v[0] == "s":
                return ("str", v)
        k = r.randrange(8)
        if k == 0:
            return "null"
        if k == 1:
            return ("bool", r.randrange(2))
        if k <= 3:
            return ("int", r.choice([i for i in INTS if abs(i) <= MAXI]))
        if k <= 5 and self.p.floats:
            f = flt(r.choice(FLOATS))
            return ("flt", f[1], f[2])
        return ("str", S(r.choice(STRS)))

    def sq(self):
        r = self.r
        n = r.randrange(0, 3)
        segs = []
        for _ in range(n):
            if r.random() < 0.6:
                segs.append(("n", S(self.raw_name())))
            else:
                segs.append(("i", r.randrange(-3, 4)))
        return ("sq", r.choice(["cur", "cur", "root"])) + tuple(segs)

    def sq_as_test(self, sq):
        """the same singular query as a filter-query (Test::RelQuery / AbsQuery)"""
        segs = tuple(("sel", ("name", s[1])) if s[0] == "n" else ("sel", ("idx", s[1])) for s in sq[2:])
        return ("rel" if sq[1] == "cur" else "abs",) + segs

    def value_arg(self, fdepth):
        """an argument of declared ValueType: literal, singular query or value-typed function"""
        r = self.r
        k = r.randrange(10)
        if k < 3:
            return ("argl", self.literal())
        if k < 8 or fdepth <= 0:
            return ("argt", self.sq_as_test(self.sq()))
        return ("argt", ("tfn", self.value_fn(fdepth - 1)))

    def nodes_arg(self, fdepth):
        r = self.r
        kind = r.choice(["rel", "rel", "abs"])
        return ("argt", (kind,) + self.segments(fdepth, 2))

    def value_fn(self, fdepth):
        r = self.r
        fns = [f for f in self.p.functions if f in ("length", "count", "value")]
        f = r.choice(fns) if fns else "length"
        if f == "length":
            return ("length", self.value_arg(fdepth))
        return (f, self.nodes_arg(fdepth))

    PATTERNS = ["a", "ab", "a|b", "a*", "a+", "a?b", ".", "..", "[ab]", "[^a]", "(a|b)c", "a.c", "", "[a-c]+", "a{2}", "(ab)*", "\\\\.", "^a", "a$", "^a$", "b|", "[", "(", "a**", "\\\\p{Lu}", "é", ".*b"]

    def logical_fn(self, fdepth):
        r = self.r
        opts = []
        if self.p.regex:
            opts += ["match", "search"]
        if self.p.custom:
            opts += ["custom"]
        f = r.choice(opts)
        if f in ("match", "search"):
            a = self.value_arg(fdepth)
            if r.random() < 0.8:
                b = ("argl", ("str", S(r.choice(self.PATTERNS))))
            else:
                b = self.value_arg(fdepth)
            return (f, a, b)
        name = r.choice(["in", "nin", "none_of", "any_of", "subset_of"] * 3 + ["foo", "size"])
        # documented arity is 2; fewer arguments are explored, more are outside C14's domain
        n = 2 if r.random() < 0.85 else r.randrange(0, 3)
        return ("custom", S(name)) + tuple(self.value_arg(fdepth) for _ in range(n))

    def comparable(self, fdepth):
        r = self.r
        k = r.randrange(10)
        if k < 4:
            return ("lit", self.literal())
        if k < 8 or not self.p.functions or fdepth <= 0:
            return self.sq()
        return ("fn", self.value_fn(fdepth - 1))

    def test(self, fdepth):
        r = self.r
        k = r.randrange(10)
        if k < 6 or not (self.p.regex or self.p.custom):
            kind = r.choice(["rel", "rel", "rel", "abs"])
            return (kind,) + self.segments(fdepth, 2)
        return ("tfn", self.logical_fn(fdepth))

    def atom(self, fdepth):
        r = self.r
        k = r.randrange(10)
        if k < 5:
            op = r.choice(["eq", "ne", "gt", "ge", "lt", "le"])
            return ("cmp", op, self.comparable(fdepth), self.comparable(fdepth))
        if k < 8 or fdepth <= 0:
            return ("atest", self.test(fdepth), r.randrange(2) if r.random() < 0.4 else 0)
        return ("afilter", self.filter(fdepth - 1), r.randrange(2))

    def conj(self, fdepth):
        r = self.r
        if r.random() < 0.25:
            n = r.randrange(2, 4)
            return ("and",) + tuple(("atom", self.atom(fdepth)) for _ in range(n))
        if self.p.programmatic and r.random() < 0.1:
            return ("and",) + tuple(("atom", self.atom(fdepth)) for _ in range(r.randrange(0, 2)))
        return ("atom", self.atom(fdepth))

    def filter(self, fdepth):
        r = self.r
        if r.random() < 0.25:
            n = r.randrange(2, 4)
            return ("or",) + tuple(self.conj(fdepth) for _ in range(n))
        if self.p.programmatic and r.random() < 0.1:
            return ("or",) + tuple(self.conj(fdepth) for _ in range(r.randrange(0, 2)))
        return self.conj(fdepth)


# ---------- rendering an AST to a concrete RFC 9535 spelling ----------
class Layout:
    """supplies every free choice of the concrete syntax; blank=0 gives the compact spelling"""
    def __init__(self, rng, blank=0.0, alt=0.5):
        self.r = rng
        self.blank = blank
        self.alt = alt

    def S(self):
        if self.blank <= 0 or self.r.random() >= self.blank:
            return ""
        return "".join(self.r.choice(" \t\n\r") for _ in range(self.r.randrange(1, 3)))

    def coin(self):
        return self.r.random() < self.alt


def is_shorthand(raw):
    return not (raw.startswith("'") or raw.startswith('"'))


def dec_of_flt(m, e, ly):
    """a decimal spelling that denotes exactly m*2^e (so any correctly rounding parser agrees)"""
    fr = Fraction(m) * (Fraction(2) ** e)
    x = float(fr)
    assert Fraction(x) == fr
    s = repr(x)
    if "e" not in s and "." not in s and "inf" not in s:
        s += ".0"
    if ly.coin() and "e" in s:
        s = s.replace("e", "E")
    return s


def r_literal(l, ly):
    if l == "null":
        return "null"
    if l[0] == "bool":
        return "true" if l[1] else "false"
    if l[0] == "int":
        return str(l[1])
    if l[0] == "flt":
        return dec_of_flt(l[1], l[2], ly)
    if l[0] in ("rawnum", "rawstr"):   # a literal given by its spelling (parser streams)
        return l[1]
    body = unS(l[1])
    q = quote_for(body)
    if q is None:
        q = "'" if ly.coin() else '"'
    return q + body + q


def quote_for(body):
    """the quote character a raw string body requires (None: either); ValueError when no spelling exists"""
    need = set()
    i, n = 0, len(body)
    while i < n:
        c = body[i]
        if c == "\\" and i + 1 < n:
            if body[i + 1] in "'\"":
                need.add(body[i + 1])          # ESC quote is only allowed inside that kind of quote
            i += 2
            continue
        if c == "'":
            need.add('"')
        elif c == '"':
            need.add("'")
        i += 1
    if len(need) > 1:
        raise ValueError("no quote style can spell this body")
    return need.pop() if need else None


def r_selector(s, ly):
    if s == "wild":
        return "*"
    if s[0] == "name":
        return unS(s[1])
    if s[0] == "idx":
        return str(s[1])
    if s[0] == "slice":
        a, b, c = s[1], s[2], s[3]
        out = ""
        if a is not None:
            out += str(a) + ly.S()
        out += ":" + ly.S()
        if b is not None:
            out += str(b) + ly.S()
        if c is not None:
            out += ":" + ly.S() + str(c)
        elif ly.coin():
            out += ":"
        return out
    if s[0] == "filter":
        return "?" + ly.S() + r_filter(s[1], ly)
    raise ValueError(s)


def r_bracket(sels, ly):
    return "[" + ly.S() + (ly.S() + "," + ly.S()).join(r_selector(s, ly) for s in sels) + ly.S() + "]"


def r_child(seg, ly, desc=False):
    """child segment (or the part after '..')"""
    dot = "" if desc else "."
    if seg[0] == "sel":
        s = seg[1]
        if s == "wild" and ly.coin():
            return dot + "*"
        if s != "wild" and s[0] == "name" and is_shorthand(unS(s[1])):
            return dot + unS(s[1])
        return r_bracket([s], ly)
    return r_bracket(list(seg[1:]), ly)


def r_segment(seg, ly):
    if seg[0] == "desc":
        return ".." + r_child(seg[1], ly, desc=True)
    return r_child(seg, ly)


def r_segments(segs, ly):
    return "".join(ly.S() + r_segment(s, ly) for s in segs)


def r_sq(sq, ly):
    out = "@" if sq[1] == "cur" else "$"
    for s in sq[2:]:
        out += ly.S()
        if s[0] == "i":
            out += "[%d]" % s[1]
        else:
            raw = unS(s[1])
            out += ("." + raw) if is_shorthand(raw) else ("[" + raw + "]")
    return out


def r_test(t, ly):
    if t[0] == "rel":
        return "@" + r_segments(t[1:], ly)
    if t[0] == "abs":
        return "$" + r_segments(t[1:], ly)
    return r_tfun(t[1], ly)


def r_arg(a, ly):
    if a[0] == "argl":
        return r_literal(a[1], ly)
    if a[0] == "argt":
        return r_test(a[1], ly)
    return r_filter(a[1], ly)


def r_tfun(f, ly):
    if f[0] == "custom":
        name, args = unS(f[1]), f[2:]
    else:
        name, args = f[0], f[1:]
    return name + "(" + ly.S() + (ly.S() + "," + ly.S()).join(r_arg(a, ly) for a in args) + ly.S() + ")"


def r_comparable(c, ly):
    if c[0] == "lit":
        return r_literal(c[1], ly)
    if c[0] == "fn":
        return r_tfun(c[1], ly)
    return r_sq(c, ly)


OPS = {"eq": "==", "ne": "!=", "gt": ">", "ge": ">=", "lt": "<", "le": "<="}


def r_atom(a, ly):
    if a[0] == "cmp":
        return r_comparable(a[2], ly) + ly.S() + OPS[a[1]] + ly.S() + r_comparable(a[3], ly)
    if a[0] == "atest":
        return ("!" + ly.S() if a[2] else "") + r_test(a[1], ly)
    return ("!" + ly.S() if a[2] else "") + "(" + ly.S() + r_filter(a[1], ly) + ly.S() + ")"


def r_filter(f, ly):
    if f[0] == "or":
        return (ly.S() + "||" + ly.S()).join(r_filter(x, ly) for x in f[1:])
    if f[0] == "and":
        return (ly.S() + "&&" + ly.S()).join(r_filter(x, ly) for x in f[1:])
    return r_atom(f[1], ly)


def render(q, ly):
    return "$" + r_segments(q[1:], ly)


def body_escapes_ok(body):
    """every backslash of a raw string body starts an escape sequence of RFC 9535 (so that the rendered sentence is one)"""
    i, n = 0, len(body)
    while i < n:
        c = body[i]
        if c == "\\":
            if i + 1 >= n:
                return False
            e = body[i + 1]
            if e == "u":
                if i + 6 > n or any(h not in "0123456789abcdefABCDEF" for h in body[i + 2:i + 6]):
                    return False
                i += 6
                continue
            if e not in "bfnrt/\\'\"":
                return False
            i += 2
            continue
        if ord(c) < 0x20:
            return False
        i += 1
    return True


def renderable(t):
    """the AST's raw names and string literals can be spelled in a query string: no invalid escape, no raw control
    character, and not both kinds of unescaped quote in one literal"""
    if not isinstance(t, tuple) or not t:
        return True
    if t[0] == "s":
        return True
    if t[0] == "str" and len(t) == 2:
        body = unS(t[1])
        try:
            quote_for(body)
        except ValueError:
            return False
        return body_escapes_ok(body)
    if t[0] in ("name", "n") and len(t) == 2 and isinstance(t[1], tuple):
        raw = unS(t[1])
        if raw[:1] in ("'", '"'):
            return len(raw) >= 2 and raw[-1] == raw[0] and body_escapes_ok(raw[1:-1])
        return True
    return all(renderable(x) for x in t[1:])


def parser_shaped(t):
    """True iff the AST has a shape the parser builds: Selectors has >= 2 members, Or/And >= 2,
    Or's members are And/Atom, And's members are Atom; an argf is not a bare test or literal."""
    if not isinstance(t, tuple):
        return True
    if t[0] == "s":
        return True
    if t[0] == "sels" and (len(t) < 3 or any(isinstance(x, tuple) and x[0] == "name" and is_shorthand(unS(x[1])) for x in t[1:])):
        return False
    if t[0] == "name" and unS(t[1]) == "":
        return False
    if t[0] == "or":
        if len(t) < 3 or any(x[0] == "or" for x in t[1:]):
            return False
    if t[0] == "and":
        if len(t) < 3 or any(x[0] != "atom" for x in t[1:]):
            return False
    if t[0] == "argf":
        f = t[1]
        if f[0] == "atom" and f[1][0] == "atest" and not f[1][2]:
            return False
    return all(parser_shaped(x) for x in t[1:])


def valid_ast(t):
    """inside the domain of the evaluator properties: every bracketed selection has a selector"""
    if not isinstance(t, tuple) or not t or t[0] == "s":
        return True
    if t[0] == "sels" and len(t) < 2:
        return False
    return all(valid_ast(x) for x in t[1:])


# ---------- concrete-syntax variety for the parser streams ----------
ESC_SIMPLE = {"\b": "\\b", "\f": "\\f", "\n": "\\n", "\r": "\\r", "\t": "\\t", "/": "\\/", "\\": "\\\\"}


def fancy_body(rng, text, q):
    """a string-literal body for [text] using every kind of escape the RFC allows"""
    out = ""
    for c in text:
        o = ord(c)
        r = rng.random()
        if c == q:
            out += "\\" + c
        elif c == "\\":
            out += "\\\\"
        elif o < 0x20:
            if c in ESC_SIMPLE and r < 0.5:
                out += ESC_SIMPLE[c]
            else:
                out += ("\\u%04x" if r < 0.75 else "\\u%04X") % o
        elif o > 0xFFFF and r < 0.5:
            v = o - 0x10000
            hi, lo = 0xD800 + (v >> 10), 0xDC00 + (v & 0x3FF)
            f = "\\u%04x\\u%04x" if rng.random() < 0.5 else "\\u%04X\\u%04X"
            out += f % (hi, lo)
        elif r < 0.15 and o <= 0xFFFF and not (0xD800 <= o <= 0xDFFF):
            out += ("\\u%04x" if rng.random() < 0.5 else "\\u%04X") % o
        elif c == "/" and r < 0.5:
            out += "\\/"
        else:
            out += c
    return out


def fancy_name(rng, text):
    q = "'" if rng.random() < 0.5 else '"'
    return q + fancy_body(rng, text, q) + q


NUM_SPELLINGS = ["0", "-0", "1", "-1", "10", "42", "100", "9007199254740991", "-9007199254740991", "0.5", "-0.5", "1.0", "1.5e0", "1e2", "1E2",
                 "1e+2", "1E-2", "100.0", "1.0e2", "0.1", "0.10", "1e-20", "2E-20", "1e300", "-1e300", "0e0", "0.0", "-0.0", "12.5e-1", "3.0", "25e-1",
                 "123456789", "1e0", "9.007199254740991e15", "1e02", "1.5e02", "5e-01", "1e-0", "2E-00", "1e+00", "1e007", "0e-0", "-1.0E+01",
                 "10e-01", "0.0e00"]

TOKEN_ALPHABET = list("$@.[]()*?:,!&|=<>'\"\\-+_0123456789abcefnrtuxAEDF \t\n\r") + ["..", "&&", "||", "==", "!=", "<=", ">=", "é", "\U0001F600", " ", " ", "\x00", "\x1f", "\x7f"]


def mutate(rng, text):
    """one single-token edit of a sentence"""
    n = len(text)
    k = rng.randrange(9)
    pos = rng.randrange(0, n + 1)
    tok = rng.choice(TOKEN_ALPHABET)
    if k == 0 and n > 0:                      # delete one character
        p = rng.randrange(n)
        return text[:p] + text[p + 1:]
    if k == 1:                                # insert a token
        return text[:pos] + tok + text[pos:]
    if k == 2 and n > 0:                      # substitute
        p = rng.randrange(n)
        return text[:p] + tok + text[p + 1:]
    if k == 3:                                # insert blank space
        return text[:pos] + rng.choice(" \t\n\r") + text[pos:]
    if k == 4 and n > 1:                      # swap neighbours
        p = rng.randrange(n - 1)
        return text[:p] + text[p + 1] + text[p] + text[p + 2:]
    if k == 5 and n > 0:                      # duplicate a character
        p = rng.randrange(n)
        return text[:p] + text[p] + text[p:]
    if k == 6:                                # digit edits: leading zero, sign, range
        import re
        m = list(re.finditer(r"-?[0-9]+", text))
        if m:
            x = rng.choice(m)
            repl = rng.choice(["0" + x.group(0), "-" + x.group(0), x.group(0) + "0" * 16, "-0", "9007199254740992", "-9007199254740992",
                               "9223372036854775807", "9223372036854775808", "+" + x.group(0), x.group(0) + ".", x.group(0) + "e", "1e400", "00"])
            return text[:x.start()] + repl + text[x.end():]
    if k == 7 and n > 0:                      # case flip
        p = rng.randrange(n)
        return text[:p] + text[p].swapcase() + text[p + 1:]
    if k == 8:                                # drop or double a bracket / quote at the end
        return text + rng.choice(["]", ")", "'", '"', " ", "\n", ".", ".."])
    return text[:pos] + tok + text[pos:]
