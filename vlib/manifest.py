"""Writes MANIFEST.json from the registry of checks (so that it is always valid and in step)."""
import json
import os
from . import props

VERIF = os.path.dirname(os.path.dirname(os.path.abspath(__file__)))
ALL = ["C%02d" % i for i in range(1, 16)]


def main():
    checks = []
    for pid in ALL:
        cls = props.REGISTRY.get(pid)
        if cls is None or not os.path.exists(os.path.join(VERIF, "coq", "Properties", pid + ".v")):
            continue
        checks.append({
            "property_id": pid,
            "quick_cmd": "./check %s --tier quick" % pid,
            "thorough_cmd": "./check %s --tier thorough" % pid,
            "evidence_file": "/verif/evidence/%s.json" % pid,
            "replay_cmd_template": "./check %s --replay {path}" % pid,
            "engine": "coq-model+correspondence",
            "level_claimed": {"category": "proof", "text": cls.level_text, "design_ref": cls.design_ref},
            "level_note": cls.level_note,
            "technique": cls.technique,
        })
    na = [{"property_id": pid, "reason": props.NOT_YET.get(pid, "check not built yet in this round; planned per DESIGN.md section 8")}
          for pid in ALL if pid not in [c["property_id"] for c in checks]]
    m = {
        "version": 1,
        "setup_cmd": "./setup",
        "hooks": {
            "guard": "jsonpath_rust_verif",
            "enable": "RUSTFLAGS=\"--cfg jsonpath_rust_verif\" (set by vlib/build.py when it builds the harness against /repo)",
            "baseline_off_cmd": "cd /repo && cargo test --workspace --no-fail-fast --offline",
            "source_commits": [],
            "add_only": True,
        },
        "engines": [{
            "name": "coq-model+correspondence",
            "path": "/verif/coq, /verif/extract, /verif/harness, /verif/vlib",
            "serves_properties": [c["property_id"] for c in checks],
            "kind_free_text": "Coq 8.16.1 theorems about a Gallina model of the crate and the RFC 9535 semantics; the model is tied to /repo on every run by translation (pest grammar) and by running the extracted model and the real crate on the same cases",
        }],
        "checks": checks,
        "not_applicable": na,
        "notes": "see DESIGN.md; known findings and fixed defects in known_findings.json",
    }
    with open(os.path.join(VERIF, "MANIFEST.json"), "w") as f:
        json.dump(m, f, indent=1)


if __name__ == "__main__":
    main()
