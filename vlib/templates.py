"""Deterministic, combinatorial sentence streams for the parser properties (C06, C07, C13).

slot sweep: template sentences in which every place where RFC 9535 allows optional blank space (S) is marked
with ALLOWED and every place where it forbids it with FORBIDDEN; expression templates are put into every context
(top-level filter, nested filter, filter inside a function argument, parentheses, negation, union of filters).
For each (context, expression): each allowed slot alone, all allowed slots, none -> valid sentences (C06);
each forbidden slot alone -> invalid sentences (C07).  The RFC reference recogniser (Concrete.v) classifies every
sentence anyway, so a wrongly placed marker only moves a sentence from one property's stream to the other's.

typing matrix: every standard function x every argument form (literal, singular / non-singular query, value-typed and
logical-typed function call, logical expression) x every way to use the result (test, negated test, either side of a
comparison, argument of each function) x arities 0..3."""

A = "·"    # allowed blank slot
F = "¤"    # forbidden blank slot

EXPRS = [
    "@.a·&&·@.b·&&·@.c",
    "@.a·||·@.b·||·@.c",
    "@.a·&&·@.b·||·@.c·&&·@.d·&&·@.e",
    "!·@.a·&&·!·(·@.b·||·@.c·)·&&·@.d",
    "@.a·==·1·&&·@.b·!=·'x'·&&·@.c·<=·2.5·&&·@.d·>·-1·&&·@.e·>=·1e2·&&·@.f·<·\"y\"",
    "(·@.a·)·&&·(·@.b·)·&&·(·@.c·||·@.d·)",
    "length¤(·@.a·)·>=·2·&&·count¤(·@·.*·)·==·1·&&·match¤(·@.a·,·'x'·)",
    "search¤(·@.a·,·\"b\"·)·||·value¤(·@.¤.a·)·==·null·||·@·[·0·]·||·true·!¤=·false",
    "@·[·'a'·,·\"b\"·,·0·,·1·:·2·:·3·,·*·,·?·@.x·]·&&·$·.k·&&·@·.¤.¤[·0·]·.b",
    "@.a·[0]·==·$·.x·['y']·&&·@·==·@·.b·.c·&&·1·=¤=·@[¤0¤]·&&·@[¤'k'¤]·<¤=·2",
    "count¤(·@.c·[·?·@.x·&&·@.y·&&·@.z·]·)·==·1·&&·length¤(·value¤(·@.*·)·)·==·2",
    "@.a·&&·!·@.b·&&·!·(·@.c·)·||·!·match¤(·@.d·,·'e'·)·||·@[·:·]·||·@[·-1·:·]·||·@[·:·:·-¤1·]",
    "-¤1·<·@.a·&&·1¤.¤5¤e¤-¤2·>·@.b·&&·'ab'·==·@.c·&&·n¤ull·==·@.d",
]

CONTEXTS = [
    "$[?·E·]",
    "$[·?·@.k·[·?·E·]·]",
    "$[?·count¤(·@.c·[·?·E·]·)·==·1·]",
    "$[?·(·E·)·]",
    "$[?·!·(·E·)·]",
    "$[?·@.z·||·(·E·)·&&·@.w·]",
    "$.¤.¤[·?·E·,·?·E·]",
    "$·.s·[·?·E·]·.¤.t·.¤*·[·*·]",
    "$[?·length¤(·value¤(·@.c·[·?·E·]·)·)·==·1·&&·@.q·]",
    "¤$¤",
]

BLANKS = [" ", "\t", "\n", "\r", " \n "]


def slot_sweep(quick=True):
    """yields (text, meta): meta['slots'] in {'none', 'all', 'one-allowed', 'one-forbidden'}"""
    out = []
    exprs = EXPRS
    for ci, ctx in enumerate(CONTEXTS):
        for ei, e in enumerate(exprs):
            if "E" not in ctx and ei > 0:
                continue
            t = ctx.replace("E", e)
            a_pos = [i for i, ch in enumerate(t) if ch == A]
            f_pos = [i for i, ch in enumerate(t) if ch == F]

            def inst(on, blank):
                return "".join((blank if i in on else "") if ch in (A, F) else ch for i, ch in enumerate(t))
            tag = {"ctx": ci, "expr": ei}
            out.append((inst(set(), " "), dict(tag, kind="slots", slots="none")))
            for b in BLANKS[:2 if quick else 5]:
                out.append((inst(set(a_pos), b), dict(tag, kind="slots", slots="all")))
            for k, p in enumerate(a_pos):
                b = BLANKS[(k + ci + ei) % (2 if quick else 5)]
                out.append((inst({p}, b), dict(tag, kind="slots", slots="one-allowed", slot=k)))
            # pairs of neighbouring allowed slots (a token with blank on both sides)
            for k in range(len(a_pos) - 1):
                if quick and (k + ei + ci) % 3:
                    continue
                out.append((inst({a_pos[k], a_pos[k + 1]}, " "), dict(tag, kind="slots", slots="two-allowed", slot=k)))
            for k, p in enumerate(f_pos):
                out.append((inst({p}, BLANKS[(k + ei) % 4]), dict(tag, kind="slots", slots="one-forbidden", slot=k)))
                out.append((inst(set(a_pos) | {p}, " "), dict(tag, kind="slots", slots="all+one-forbidden", slot=k)))
    return out


ARGS = {
    "literal": ["1", "'x'", "true", "null", "1.5"],
    "singular": ["@.a", "$.a[0]", "@", "@['k'][1]"],
    "nonsingular": ["@.*", "@..a", "@[0,1]", "@[?@.x]", "@[1:]", "$..*"],
    "valuefn": ["length(@.a)", "count(@.*)", "value(@.*)", "length('abc')"],
    "logicalfn": ["match(@.a,'x')", "search(@.a,'x')"],
    "logical": ["@.a&&@.b", "@.a==1", "(@.a)", "!@.a", "@.a||@.b", "1==1"],
}
FUNCS = {"length": 1, "count": 1, "value": 1, "match": 2, "search": 2}


def calls():
    """function calls, each with the form of the argument that varies"""
    out = []
    allargs = [(k, a) for k, l in ARGS.items() for a in l]
    for f, ar in FUNCS.items():
        if ar == 1:
            for k, a in allargs:
                out.append(("%s(%s)" % (f, a), {"fn": f, "arg": k}))
        else:
            for k, a in allargs:
                out.append(("%s(%s,'p')" % (f, a), {"fn": f, "arg": k, "pos": 1}))
                out.append(("%s(@.s,%s)" % (f, a), {"fn": f, "arg": k, "pos": 2}))
        # arities
        out.append(("%s()" % f, {"fn": f, "arity": 0}))
        out.append(("%s(@.a,@.b,@.c)" % f, {"fn": f, "arity": 3}))
        out.append((("%s(@.a,@.b)" if ar == 1 else "%s(@.a)") % f, {"fn": f, "arity": 3 - ar}))
    return out


USES = [
    ("test", "$[?%s]"), ("not-test", "$[?!%s]"), ("paren-test", "$[?(%s)]"), ("and-test", "$[?@.q&&%s]"), ("or-test", "$[?%s||@.q]"),
    ("cmp-left", "$[?%s==1]"), ("cmp-right", "$[?1<=%s]"), ("cmp-str", "$[?%s!='s']"), ("cmp-query", "$[?%s==@.q]"), ("cmp-bool", "$[?%s==true]"),
    ("cmp-fn", "$[?%s==length(@.q)]"),
    ("arg-length", "$[?length(%s)==1]"), ("arg-count", "$[?count(%s)==1]"), ("arg-value", "$[?value(%s)==1]"),
    ("arg-match-1", "$[?match(%s,'p')]"), ("arg-match-2", "$[?match(@.s,%s)]"), ("arg-search-1", "$[?search(%s,'p')]"), ("arg-search-2", "$[?search(@.s,%s)]"),
    ("arg-length-test", "$[?length(%s)]"), ("arg-count-nested", "$[?length(value(%s))==1]"), ("nested-filter", "$[?@.k[?%s]]"),
    ("nested-filter-cmp", "$[?count(@.k[?%s==1])>0]"),
]


def typing_matrix():
    out = []
    for call, m in calls():
        for uname, u in USES:
            out.append((u % call, dict(m, kind="typing", use=uname)))
    # bare argument forms in each use (non-function comparables and tests)
    for k, l in ARGS.items():
        for a in l:
            for uname, u in USES:
                out.append((u % a, {"kind": "typing", "arg": k, "use": uname, "fn": None}))
    return out
