"""Check skeleton shared by all properties: build, proof obligations, correspondence + search with
the three-way verdict (impl / model / RFC spec), shrinking, replay files, known findings,
evidence."""
import hashlib
import json
import os
import random
import sys
import time

from . import build, proofs, runner, sx

VERIF = build.VERIF
EVID = os.path.join(VERIF, "evidence")
REPLAYS = os.path.join(VERIF, "replays")
KNOWN = os.path.join(VERIF, "known_findings.json")

TRUSTED_BASE = [
    "Coq 8.16.1 kernel (coqc, full .vo build); vm_compute only in Example/witness lemmas; no native_compute",
    "Print Assumptions of every property theorem: Closed under the global context (allowlist empty)",
    "hand model of src/query/*.rs and src/parser.rs in coq/Eval.v, ValueModel.v, Build.v: tied to /repo by the correspondence run of this check (extracted OCaml driver vs Rust harness on the same cases)",
    "extraction: ExtrOcamlBasic only (bool, option, unit, list, prod, sumbool to OCaml's; andb/orb inlined); no Extract Constant / Extract Inductive of our own; OCaml 4.13.1; extract/driver.ml (S-expression I/O)",
    "reading of RFC 9535 in coq/Spec.v, NormPath.v (human transcription)",
    "modelled, not verified: serde_json (Value accessors, ==, From), Rust std string functions, regex crate on the modelled dialect, pest runtime",
    "tools/pest2coq.py (grammar translator) and tools/footprint.py where the property uses them",
]


class Case:
    """One explored input.  (kind, fields) is what the extracted model evaluates; when [impl] is
    given the real crate is driven differently for the same input (e.g. the query as a string
    through the public string API while the model evaluates the AST that spelling denotes)."""
    __slots__ = ("id", "kind", "fields", "meta", "impl")

    def __init__(self, id, kind, fields, meta=None, impl=None):
        self.id, self.kind, self.fields, self.meta, self.impl = id, kind, fields, meta or {}, impl

    @staticmethod
    def _line(kind, id, fields):
        return "\t".join([kind, id] + [f if isinstance(f, str) else sx.dump(f) for f in fields]) + "\n"

    def line(self):
        return self._line(self.kind, self.id, self.fields)

    def impl_line(self):
        if self.impl is None:
            return self.line()
        return self._line(self.impl[0], self.id, self.impl[1])


class Verdict:
    __slots__ = ("status", "cls", "detail", "nontrivial", "key", "noshrink")

    def __init__(self, status, cls=None, detail=None, nontrivial=False, key=None, noshrink=False):
        self.status, self.cls, self.detail, self.nontrivial, self.key = status, cls, detail, nontrivial, key
        self.noshrink = noshrink


def parse_items(fields):
    """['OK', 'loc|path loc|path ...'] -> list of (loc, path); other outcomes -> the tag string"""
    if not fields:
        return "MISSING"
    if fields[0] != "OK":
        return fields[0]
    if len(fields) < 2 or fields[1] == "":
        return []
    out = []
    for it in fields[1].split(" "):
        if "|" in it:
            l, p = it.split("|", 1)
        else:
            l, p = it, None
        out.append((l, p))
    return out


def locs(items):
    return items if isinstance(items, str) else [l for l, _ in items]


def kflags(fields):
    d = {}
    if fields:
        for kv in fields[0].split(" "):
            if "=" in kv:
                k, v = kv.split("=")
                d[k] = v == "1"
    return d


def load_known():
    if not os.path.exists(KNOWN):
        return {"findings": [], "fixed": []}
    return json.load(open(KNOWN))


class PropCheck:
    pid = None
    title = ""
    coq_prop = None          # Properties/<coq_prop>.v ; default pid
    release_too = False
    rule = ""

    def __init__(self, tier, seed):
        self.tier = tier
        self.seed = seed
        self.rng = random.Random(seed * 1000003 + int(hashlib.sha256(self.pid.encode()).hexdigest()[:8], 16))
        self.known = [f for f in load_known()["findings"] if f["property"] == self.pid]
        self.stats = {}
        self.samples = []

    # ----- to be provided by each property -----
    def cases(self):
        raise NotImplementedError

    def judge(self, case, ans):
        raise NotImplementedError

    def release_may_differ(self, case, debug_answer, release_answer):
        return False

    def post_checks(self, cases, res):
        """checks across cases (e.g. all spellings of one query agree); yields (case, ans, Verdict)"""
        return []

    def followups(self, case, ans):
        """second-phase cases derived from a first-phase answer (e.g. re-query a reported path)"""
        return []

    def scale_cases(self):
        """deterministic large-input cases (EvalProp classes with scale = True)"""
        return []

    def directed_cases(self, failed_theorem):
        """enlarged search used when a proof obligation breaks"""
        return self.cases()

    # ----- helpers -----
    def count(self, key, n=1):
        self.stats[key] = self.stats.get(key, 0) + n

    def known_classes(self):
        return set(f["class"] for f in self.known)

    def describe(self, case, ans):
        d = {"property": self.pid, "kind": case.kind, "id": case.id,
             "fields": [f if isinstance(f, str) else sx.dump(f) for f in case.fields],
             "impl": None if case.impl is None else [case.impl[0]] + [f if isinstance(f, str) else sx.dump(f) for f in case.impl[1]],
             "meta": case.meta, "answers": {k: v for k, v in (ans or {}).items()}}
        return d

    def write_replay(self, case, ans, verdict, extra=None):
        os.makedirs(REPLAYS, exist_ok=True)
        d = self.describe(case, ans)
        d["verdict"] = {"status": verdict.status, "class": verdict.cls, "detail": verdict.detail}
        if extra:
            d.update(extra)
        h = hashlib.sha256(json.dumps(d["fields"]).encode()).hexdigest()[:12]
        path = os.path.join(REPLAYS, "%s-%s.json" % (self.pid, h))
        with open(path, "w") as f:
            json.dump(d, f, indent=1, ensure_ascii=True)
        return path

    # ----- shrinking: greedy single deletions / simplifications that keep the verdict -----
    def shrink(self, case, is_bad, rounds=40, budget_s=25.0):
        cur = case
        deadline = time.time() + budget_s
        for _ in range(rounds):
            if time.time() > deadline:
                break
            cands = []
            for fi, f in enumerate(cur.fields):
                if isinstance(f, tuple) and cur.impl is None:
                    tried, got = 0, 0
                    for smaller in shrink_tuple(f):
                        tried += 1
                        if tried > 400 or got >= 60:
                            break
                        nf = list(cur.fields)
                        nf[fi] = smaller
                        if gen_valid(smaller):
                            got += 1
                            cands.append(Case("s%d" % len(cands), cur.kind, nf, cur.meta))
            if cur.impl is not None and hasattr(self, "shrink_e2e"):
                cands = self.shrink_e2e(cur)
            if not cands:
                break
            cands = cands[:120]
            res = run_both(cands)
            better = None
            for c in cands:
                try:
                    if is_bad(c, res.get(c.id, {})):
                        better = c
                        break
                except Exception:
                    continue
            if better is None:
                break
            cur = Case(case.id, better.kind, better.fields, better.meta, better.impl)
        return cur

    # ----- main -----
    def run(self):
        t0 = time.time()
        os.makedirs(EVID, exist_ok=True)
        violations = []          # (line suffix, replay path)
        # 1. build model, driver, harness from the current trees
        try:
            feats = getattr(self, "harness_features", None)
            runner.FEATURES = feats
            runner.ISOLATE = bool(getattr(self, "isolate_cases", False))
            build.build_all(coq_targets=["Extract.vo"], release=self.release_too or self.tier == "thorough", features=feats)
        except build.BuildError as e:
            # the executables cannot be built: nothing is shown to hold
            path = self.write_build_failure(e)
            print("VIOLATION property=%s replay=%s no-failing-input-found" % (self.pid, path))
            self.write_evidence(t0, None, 0, 0, 1, build_error=e.stage)
            return 1
        # 2. proof obligations
        pr = proofs.check(self.coq_prop or self.pid, self.tier)
        # 3. correspondence and search
        cases = self.cases() + self.scale_cases()
        if not pr["ok"]:
            cases = cases + [Case("d" + c.id, c.kind, c.fields, c.meta, c.impl) for c in self.directed_cases(pr)]
        res = run_both(cases)
        more = []
        for c in cases:
            more.extend(self.followups(c, res.get(c.id, {})))
        if more:
            res.update(run_both(more))
            cases = cases + more
        if (self.release_too or self.tier == "thorough") and not runner.HANGS["confirmed"]:
            res_rel = runner.run_cases([c.impl_line() for c in cases], release=True, want_model=False)
        else:
            res_rel = None
        seen_known = {}
        nontrivial_keys = set()
        for c in cases:
            ans = res.get(c.id, {})
            if (ans.get("I") or [None])[0] == "SKIPPED_AFTER_HANGS" or (res_rel is not None and (res_rel.get(c.id, {}).get("I") or [None])[0] == "SKIPPED_AFTER_HANGS"):
                # the shard of this case was abandoned after three confirmed hangs (each of them is reported): nothing is claimed
                self.count("skipped_after_hangs")
                continue
            if res_rel is not None:
                ri = res_rel.get(c.id, {}).get("I")
                if ri != ans.get("I") and not self.release_may_differ(c, ans.get("I"), ri):
                    v = Verdict("violation", detail="debug and release builds disagree: %r vs %r" % (ans.get("I"), ri))
                    violations.append((c, ans, v))
                    continue
            try:
                v = self.judge(c, ans)
            except Exception as ex:      # a malformed answer is a failure of the machinery, not a pass
                v = Verdict("violation", detail="judge error %r on answers %r" % (ex, ans))
            self.count("verdict_" + v.status)
            if v.nontrivial:
                nontrivial_keys.add(v.key if v.key is not None else c.line())
            if v.status == "violation":
                violations.append((c, ans, v))
            elif v.status == "known":
                if v.cls in self.known_classes():
                    seen_known.setdefault(v.cls, (c, ans, v))
                else:
                    v2 = Verdict("violation", cls=v.cls, detail="deviation of class %s is not a listed known finding: %s" % (v.cls, v.detail))
                    violations.append((c, ans, v2))
            if len(self.samples) < 6 and v.nontrivial and self.rng.random() < 0.2:
                self.samples.append(self.describe(c, ans))
        for (c, ans, v) in self.post_checks(cases, res):
            v.noshrink = True
            self.count("verdict_" + v.status)
            if v.status == "violation":
                violations.append((c, ans, v))
        if not self.samples and cases:
            self.samples.append(self.describe(cases[0], res.get(cases[0].id, {})))
        # known findings: re-execute each listed witness
        for f in self.known:
            wit = self.run_witness(f)
            if wit:
                print("KNOWN-FINDING: property=%s class=%s %s" % (self.pid, f["class"], f["what"]))
            else:
                self.count("known_witness_no_longer_manifests")
        exit_code = 0
        reported = set()
        for (c, ans, v) in violations[:3]:
            small = c
            try:
                if v.noshrink:
                    raise RuntimeError("no shrinking for cross-case verdicts")
                if (ans.get("I") or [None])[0] == "TIMEOUT":
                    raise RuntimeError("a hanging case is reported as it is: every smaller candidate that hangs too costs a confirmation")
                sig0 = (v.detail or "")[:24]
                small = self.shrink(c, lambda cc, aa: (lambda vv: vv.status == "violation" and (vv.detail or "")[:24] == sig0)(self.judge(cc, aa)))
                sans = run_both([small]).get(small.id, ans)
            except Exception:
                sans = ans
            path = self.write_replay(small, sans, v, {"original": self.describe(c, ans)})
            if path not in reported:
                print("VIOLATION property=%s replay=%s" % (self.pid, path))
                reported.add(path)
            exit_code = 1
        if not pr["ok"] and exit_code == 0:
            path = os.path.join(REPLAYS, "%s-proof.json" % self.pid)
            os.makedirs(REPLAYS, exist_ok=True)
            json.dump({"property": self.pid, "broken_obligation": pr.get("failed_at"), "error": pr["error"],
                       "searched_cases": len(cases), "note": "a theorem or the source scan no longer checks; the enlarged search found no input on which the property fails"},
                      open(path, "w"), indent=1)
            print("VIOLATION property=%s replay=%s no-failing-input-found" % (self.pid, path))
            exit_code = 1
        self.write_evidence(t0, pr, len(cases), len(nontrivial_keys), len(violations))
        return exit_code

    def run_witness(self, f):
        return True

    def write_build_failure(self, e):
        os.makedirs(REPLAYS, exist_ok=True)
        path = os.path.join(REPLAYS, "%s-build.json" % self.pid)
        json.dump({"property": self.pid, "stage": e.stage, "log": e.log[-4000:],
                   "note": "model, driver or harness no longer builds against /repo's working tree"},
                  open(path, "w"), indent=1)
        return path

    def write_evidence(self, t0, pr, evaluations, nontrivial, nviol, build_error=None):
        cov = {
            "obligations": pr["obligations"] if pr else 0,
            "discharged": pr["discharged"] if pr else 0,
            "checker_cmd": pr["checker_cmd"] if pr else "make -C coq (not reached)",
            "trusted_base": TRUSTED_BASE,
            "theorems": pr["theorems"] if pr else [],
            "print_assumptions": pr["assumptions"] if pr else {},
            "proof_error": (pr or {}).get("error"),
            "coqchk": (pr or {}).get("coqchk"),
            "evaluations": evaluations,
            "distinct_nontrivial": nontrivial,
            "rule": self.rule,
            "samples": self.samples[:6] or [{"note": "no case was run"}],
            "distribution": self.stats,
            "exhaustive": getattr(self, "exhaustive", False),
        }
        if build_error:
            cov["build_error"] = build_error
        ev = {
            "property_id": self.pid,
            "tier": self.tier,
            "seed": self.seed,
            "level": "proof",
            "coverage": cov,
            "assumptions": ["the hand model corresponds to the code on the inputs explored by this run (differential run, not a proof)",
                            "Coq kernel, extraction, OCaml and Rust compilers"],
            "wall_s": round(time.time() - t0, 2),
            "violations": nviol,
        }
        with open(os.path.join(EVID, "%s.json" % self.pid), "w") as f:
            json.dump(ev, f, indent=1, ensure_ascii=True)


def gen_valid(t):
    from . import gen
    return gen.valid_ast(t)


def run_both(cases):
    """model on the model lines, crate on the impl lines; answers merged by id"""
    if all(c.impl is None for c in cases):
        return runner.run_cases([c.line() for c in cases], release=False)
    res = runner.run_cases([c.line() for c in cases], release=False, want_impl=False)
    ri = runner.run_cases([c.impl_line() for c in cases], release=False, want_model=False)
    for k, v in ri.items():
        res.setdefault(k, {}).update(v)
    return res


def shrink_tuple(t):
    """strictly smaller variants of an s-expression tuple (lazily): drop a chunk (half, quarter, ... one element) of a
    variadic list, or replace a subtree by one of its same-sorted children"""
    VARIADIC = {"q": 1, "a": 1, "o": 1, "sels": 1, "or": 1, "and": 1, "rel": 1, "abs": 1, "sq": 2, "custom": 2, "s": 1}
    if not isinstance(t, tuple) or not t:
        return
    tag = t[0]
    if tag in VARIADIC:
        st = VARIADIC[tag]
        n = len(t) - st
        if n > 32:
            # a long list: only offer to keep one half / to drop one quarter, and nothing below it (cheap rounds first)
            h = n // 2
            yield t[:st] + t[st:st + h]
            yield t[:st] + t[st + h:]
            qn = n // 4
            for i in range(st, len(t), qn):
                yield t[:i] + t[i + qn:]
            return
        chunk = n // 2
        while chunk >= 2:
            for i in range(st, len(t), chunk):
                yield t[:i] + t[i + chunk:]
            chunk //= 2
        for i in range(st, len(t)):
            yield t[:i] + t[i + 1:]
    if tag == "desc":
        yield t[1]
    if tag in ("or", "and") and len(t) == 2:
        yield t[1]
    for i in range(1, len(t)):
        if isinstance(t[i], tuple):
            for s in shrink_tuple(t[i]):
                yield t[:i] + (s,) + t[i + 1:]


def main(registry):
    import argparse
    ap = argparse.ArgumentParser()
    ap.add_argument("prop")
    ap.add_argument("--tier", default=os.environ.get("VERIF_TIER", "quick"))
    ap.add_argument("--replay")
    a = ap.parse_args()
    seed = int(os.environ.get("VERIF_SEED", "20261001"))
    cls = registry[a.prop]
    chk = cls(a.tier if a.tier in ("quick", "thorough") else "quick", seed)
    if a.replay:
        sys.exit(replay(chk, a.replay))
    sys.exit(chk.run())


def replay(chk, path):
    d = json.load(open(path))
    if "fields" not in d:
        print(json.dumps(d, indent=1))
        return 1
    build.build_all(coq_targets=["Extract.vo"])
    un = lambda fs: [sx.parse(f) if f.startswith("(") else f for f in fs]
    impl = d.get("impl")
    c = Case("r0", d["kind"], un(d["fields"]), d.get("meta"), (impl[0], un(impl[1:])) if impl else None)
    ans = run_both([c]).get("r0", {})
    v = chk.judge(c, ans)
    print(json.dumps({"answers": ans, "status": v.status, "class": v.cls, "detail": v.detail}, indent=1))
    if v.status == "violation":
        print("VIOLATION property=%s replay=%s" % (chk.pid, path))
        return 1
    return 0
