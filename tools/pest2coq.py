#!/usr/bin/env python3
"""pest2coq.py <repo> — translate src/parser/grammar/json_path_9535.pest into a Coq deep embedding
(coq/gen/Grammar.v, printed on stdout).  Runs at the start of every check, so that the theorems
about the grammar and the extracted parser model are about what the .pest file says now.

Supported pest syntax (everything this grammar uses): rules `name = [_@$!]? { expr }`, choice `|`,
sequence `~`, postfix `* + ? {n}`, predicates `! &`, strings with escapes, char ranges 'a'..'z', rule references,
parentheses, builtins SOI EOI ASCII_DIGIT ASCII_NONZERO_DIGIT ASCII_ALPHA ANY.  Anything else is
an error (exit 2): the translator never guesses."""
import re
import sys

BUILTIN_RANGES = {
    "ASCII_DIGIT": [(48, 57)],
    "ASCII_NONZERO_DIGIT": [(49, 57)],
    "ASCII_ALPHA": [(97, 122), (65, 90)],
    "ASCII_ALPHA_LOWER": [(97, 122)],
    "ASCII_ALPHA_UPPER": [(65, 90)],
    "ASCII_HEX_DIGIT": [(48, 57), (97, 102), (65, 70)],
    "ANY": [(0, 0x10FFFF)],
}


class Err(Exception):
    pass


def tokenize(text):
    toks = []
    i, n = 0, len(text)
    while i < n:
        c = text[i]
        if c.isspace():
            i += 1
        elif text.startswith("//", i):
            while i < n and text[i] != "\n":
                i += 1
        elif text.startswith("/*", i):
            j = text.find("*/", i + 2)
            if j < 0:
                raise Err("unterminated comment")
            i = j + 2
        elif c == '"':
            j = i + 1
            out = []
            while j < n and text[j] != '"':
                if text[j] == "\\":
                    cp, j = escape(text, j)
                    out.append(cp)
                else:
                    out.append(ord(text[j]))
                    j += 1
            if j >= n:
                raise Err("unterminated string")
            toks.append(("str", out))
            i = j + 1
        elif c == "'":
            j = i + 1
            if text[j] == "\\":
                cp, j = escape(text, j)
            else:
                cp = ord(text[j])
                j += 1
            if text[j] != "'":
                raise Err("bad char literal at %d" % i)
            toks.append(("chr", cp))
            i = j + 1
        elif text.startswith("..", i):
            toks.append(("..", None))
            i += 2
        elif c in "={}()|~*+?!&_@$^,":
            # '_' is both a modifier and an identifier start: decide by what follows
            if c == "_" and i + 1 < n and (text[i + 1].isalnum() or text[i + 1] == "_"):
                m = re.match(r"[A-Za-z_][A-Za-z0-9_]*", text[i:])
                toks.append(("id", m.group(0)))
                i += len(m.group(0))
            else:
                toks.append((c, None))
                i += 1
        elif c.isalpha():
            m = re.match(r"[A-Za-z_][A-Za-z0-9_]*", text[i:])
            toks.append(("id", m.group(0)))
            i += len(m.group(0))
        elif c.isdigit():
            m = re.match(r"[0-9]+", text[i:])
            toks.append(("num", int(m.group(0))))
            i += len(m.group(0))
        else:
            raise Err("unexpected character %r at %d" % (c, i))
    return toks


def escape(text, j):
    """text[j] == backslash; returns (code point, next index)"""
    e = text[j + 1]
    simple = {"n": 10, "r": 13, "t": 9, "\\": 92, "0": 0, "'": 39, '"': 34}
    if e in simple:
        return simple[e], j + 2
    if e == "u":
        m = re.match(r"\{([0-9A-Fa-f]{1,6})\}", text[j + 2:])
        if not m:
            raise Err("bad \\u escape")
        return int(m.group(1), 16), j + 2 + len(m.group(0))
    if e == "x":
        return int(text[j + 2:j + 4], 16), j + 4
    raise Err("unknown escape \\%s" % e)


class Parser:
    def __init__(self, toks):
        self.t = toks
        self.i = 0

    def peek(self, k=0):
        return self.t[self.i + k] if self.i + k < len(self.t) else (None, None)

    def eat(self, kind):
        k, v = self.peek()
        if k != kind:
            raise Err("expected %s, found %s %r (token %d)" % (kind, k, v, self.i))
        self.i += 1
        return v

    def rules(self):
        out = []
        while self.peek()[0] is not None:
            name = self.eat("id")
            self.eat("=")
            mod = "normal"
            k = self.peek()[0]
            if k in ("_", "@", "$", "!"):
                mod = {"_": "silent", "@": "atomic", "$": "compound", "!": "nonatomic"}[k]
                self.i += 1
            self.eat("{")
            e = self.choice()
            self.eat("}")
            out.append((name, mod, e))
        return out

    def choice(self):
        e = self.seq()
        while self.peek()[0] == "|":
            self.i += 1
            e = ("alt", e, self.seq())
        return e

    def seq(self):
        e = self.postfix()
        while self.peek()[0] == "~":
            self.i += 1
            e = ("seq", e, self.postfix())
        return e

    def postfix(self):
        k = self.peek()[0]
        if k in ("!", "&"):
            self.i += 1
            inner = self.postfix()
            return ("not" if k == "!" else "and", inner)
        e = self.term()
        while True:
            k = self.peek()[0]
            if k == "*":
                self.i += 1
                e = ("rep", e)
            elif k == "+":
                self.i += 1
                e = ("seq", e, ("rep", e))          # pest's unroller: e+ = e ~ e*
            elif k == "?":
                self.i += 1
                e = ("opt", e)
            elif k == "{":
                # e{n}: only the exact-count form, unrolled with ~ as pest does
                if self.peek(1)[0] == "num" and self.peek(2)[0] == "}":
                    n = self.peek(1)[1]
                    self.i += 3
                    if n < 1:
                        raise Err("e{0} unsupported")
                    base = e
                    for _ in range(n - 1):
                        e = ("seq", e, base)
                else:
                    break
            else:
                break
        return e

    def term(self):
        k, v = self.peek()
        if k == "str":
            self.i += 1
            return ("str", v)
        if k == "chr":
            self.i += 1
            self.eat("..")
            hi = self.eat("chr")
            return ("range", v, hi)
        if k == "id":
            self.i += 1
            if v == "SOI":
                return ("soi",)
            if v == "EOI":
                return ("eoi",)
            if v in BUILTIN_RANGES:
                rs = BUILTIN_RANGES[v]
                e = ("range", rs[0][0], rs[0][1])
                for lo, hi in rs[1:]:
                    e = ("alt", e, ("range", lo, hi))
                return e
            return ("call", v)
        if k == "(":
            self.i += 1
            e = self.choice()
            self.eat(")")
            return e
        if k == "^":
            # ^"abc": ASCII case-insensitive literal.  It is ONE terminal (no implicit skipping inside it), so it becomes the
            # ordered choice of all case variants of the whole string, not a sequence of per-character choices
            self.i += 1
            k2, v2 = self.peek()
            if k2 != "str":
                raise Err("^ must be followed by a string literal")
            self.i += 1
            letters = [c for c in v2 if (65 <= c <= 90) or (97 <= c <= 122)]
            if len(letters) > 6:
                raise Err("case-insensitive literal with more than 6 letters is not supported by the translator")
            variants = [[]]
            for c in v2:
                if (65 <= c <= 90) or (97 <= c <= 122):
                    lo, up = (c | 32), (c & ~32)
                    variants = [x + [lo] for x in variants] + [x + [up] for x in variants]
                else:
                    variants = [x + [c] for x in variants]
            e = ("str", variants[0])
            for x in variants[1:]:
                e = ("alt", e, ("str", x))
            return e
        raise Err("unexpected token %s %r (token %d)" % (k, v, self.i))


def coq_str(cps):
    return "[" + "; ".join(str(c) for c in cps) + "]%N"


def emit_expr(e, names):
    k = e[0]
    if k == "str":
        return "(EStr %s)" % coq_str(e[1])
    if k == "range":
        return "(ERange %d %d)" % (e[1], e[2])
    if k == "call":
        if e[1] not in names:
            raise Err("reference to undefined rule %s" % e[1])
        return "(ECall R_%s)" % e[1]
    if k == "seq":
        return "(ESeq %s %s)" % (emit_expr(e[1], names), emit_expr(e[2], names))
    if k == "alt":
        return "(EAlt %s %s)" % (emit_expr(e[1], names), emit_expr(e[2], names))
    if k == "opt":
        return "(EOpt %s)" % emit_expr(e[1], names)
    if k == "rep":
        return "(ERep %s)" % emit_expr(e[1], names)
    if k == "not":
        return "(ENot %s)" % emit_expr(e[1], names)
    if k == "and":
        return "(EAnd %s)" % emit_expr(e[1], names)
    if k == "soi":
        return "ESoi"
    if k == "eoi":
        return "EEoi"
    raise Err("emit: " + k)



# ---------- tables for the termination argument (PegTerm.v checks them; nothing here is trusted) ----------
def nullable(e, nl):
    k = e[0]
    if k == "str":
        return len(e[1]) == 0
    if k == "range":
        return False
    if k == "call":
        return nl.get(e[1], False)
    if k == "seq":
        return nullable(e[1], nl) and nullable(e[2], nl)
    if k == "alt":
        return nullable(e[1], nl) or nullable(e[2], nl)
    return True          # opt rep not and soi eoi


def callee_atomic(mod, at):
    if mod in ("atomic", "compound"):
        return True
    if mod == "nonatomic":
        return False
    return at


def lh(at, e, rk, nl, mods, subs=None):
    """leftmost height of e in a rule body whose atomicity is `at` (True = no implicit skipping)"""
    skh = 1 if at else 4 + rk[True].get("WHITESPACE", 0)
    k = e[0]
    if k in ("str", "range", "soi", "eoi"):
        v = 1
    elif k == "call":
        v = 1 + rk[callee_atomic(mods.get(e[1], "normal"), at)].get(e[1], 0)
    elif k == "seq":
        a = lh(at, e[1], rk, nl, mods, subs)
        b = lh(at, e[2], rk, nl, mods, subs)
        v = 1 + max(a, skh, b if nullable(e[1], nl) else 0)
    elif k == "alt":
        v = 1 + max(lh(at, e[1], rk, nl, mods, subs), lh(at, e[2], rk, nl, mods, subs))
    elif k in ("opt", "not", "and"):
        v = 1 + lh(at, e[1], rk, nl, mods, subs)
    elif k == "rep":
        a = lh(at, e[1], rk, nl, mods, subs)
        tail = 1 + max(skh, a)
        if subs is not None:
            subs.append(tail)
        v = 1 + max(a, tail)
    else:
        raise Err("lh: " + k)
    if subs is not None:
        subs.append(v)
    return v


def termination_tables(rules):
    mods = {n: m for n, m, _ in rules}
    bodies = {n: e for n, _, e in rules}
    bodies["EOI"] = ("eoi",)
    mods["EOI"] = "normal"
    nl = {n: False for n in bodies}
    for _ in range(len(bodies) + 2):
        new = {n: nullable(bodies[n], nl) for n in bodies}
        if new == nl:
            break
        nl = new
    rk = {True: {n: 0 for n in bodies}, False: {n: 0 for n in bodies}}
    for _ in range(400):
        new = {b: {n: lh(b, bodies[n], rk, nl, mods) for n in bodies} for b in (True, False)}
        if new == rk:
            break
        rk = new
    subs = []
    for b in (True, False):
        for n in bodies:
            lh(b, bodies[n], rk, nl, mods, subs)
    bound = max(subs + [5 + rk[True].get("WHITESPACE", 0)])
    return nl, rk, bound


def main():
    repo = sys.argv[1] if len(sys.argv) > 1 else "/repo"
    path = repo + "/src/parser/grammar/json_path_9535.pest"
    text = open(path, encoding="utf-8").read()
    rules = Parser(tokenize(text)).rules()
    names = [r[0] for r in rules]
    if len(set(names)) != len(names):
        raise Err("duplicate rule")
    if "WHITESPACE" not in names:
        raise Err("the parser model expects a WHITESPACE rule")
    if "COMMENT" in names:
        raise Err("COMMENT rules are not modelled")
    out = []
    out.append("(* GENERATED by tools/pest2coq.py from %s — do not edit. *)" % path.replace("*)", "* )"))
    out.append("From Coq Require Import List NArith Bool.")
    out.append("From JP Require Import Base Peg.")
    out.append("Import ListNotations.")
    out.append("")
    out.append("Inductive rname :=\n" + "\n".join("| R_%s" % n for n in names) + "\n| R_EOI.")
    out.append("")
    out.append("Definition rname_idx (r : rname) : N :=\n  match r with\n" +
               "\n".join("  | R_%s => %d%%N" % (n, i) for i, n in enumerate(names)) +
               "\n  | R_EOI => %d%%N\n  end." % len(names))
    out.append("Definition rname_eqb (a b : rname) : bool := N.eqb (rname_idx a) (rname_idx b).")
    out.append("")
    out.append("Definition rname_str (r : rname) : str :=\n  match r with\n" +
               "\n".join("  | R_%s => %s" % (n, coq_str([ord(c) for c in n])) for n in names) +
               "\n  | R_EOI => %s\n  end." % coq_str([ord(c) for c in "EOI"]))
    out.append("")
    kinds = {"normal": "KNormal", "silent": "KSilent", "atomic": "KAtomic", "compound": "KCompound", "nonatomic": "KNonAtomic"}
    out.append("Definition rule_of (r : rname) : rkind * expr rname :=\n  match r with")
    for n, mod, e in rules:
        out.append("  | R_%s => (%s, %s)" % (n, kinds[mod], emit_expr(e, names)))
    out.append("  | R_EOI => (KNormal, EEoi)\n  end.")
    out.append("")
    out.append("Definition grammar : peg rname := {| g_rule := rule_of; g_ws := R_WHITESPACE; g_eoi := R_EOI |}.")
    nl, rk, bound = termination_tables(rules)
    allnames = names + ["EOI"]
    out.append("")
    out.append("(* tables for the termination argument: proposed here, CHECKED in TermCheck.v (a wrong table fails the check) *)")
    out.append("Definition rule_nullable (r : rname) : bool :=\n  match r with\n" +
               "\n".join("  | R_%s => %s" % (n, "true" if nl[n] else "false") for n in allnames) + "\n  end.")
    for b, nm in ((True, "rule_rank_atomic"), (False, "rule_rank_nonatomic")):
        out.append("Definition %s (r : rname) : nat :=\n  match r with\n" % nm +
                   "\n".join("  | R_%s => %d" % (n, min(rk[b][n], 5000)) for n in allnames) + "\n  end.")
    out.append("Definition rule_rank (atomic : bool) (r : rname) : nat := if atomic then rule_rank_atomic r else rule_rank_nonatomic r.")
    out.append("Definition rank_bound : nat := %d." % min(bound, 5000))
    print("\n".join(out))


if __name__ == "__main__":
    try:
        main()
    except Err as e:
        sys.stderr.write("pest2coq: %s\n" % e)
        sys.exit(2)
