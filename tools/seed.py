#!/usr/bin/env python3
"""seed.py <worktree> <n> <property> <seed-id> [other properties to run...]
Confirms a sub-agent's mutation in its scratch worktree (suite passes with it; demo fails with it
and passes without), stores it under /verif/seeded/<seed-id>/, then applies it to /repo, runs the
given checks, and undoes it."""
import json, os, shutil, subprocess, sys, time

def sh(cmd, cwd=None, timeout=1800):
    p = subprocess.run(cmd, cwd=cwd, shell=True, capture_output=True, text=True, timeout=timeout)
    return p.returncode, p.stdout + p.stderr

def main():
    wt, n, prop, sid = sys.argv[1:5]
    others = sys.argv[5:]
    diff = os.path.join(wt, "mutation%s.diff" % n)
    demo = os.path.join(wt, "demo%s.rs" % n)
    meta = {"property": prop, "seed_id": sid, "source": "sub-agent in %s" % wt, "ran": []}
    sh("git checkout -- . && rm -rf tests", wt)
    # demo without the mutation
    os.makedirs(os.path.join(wt, "tests"), exist_ok=True)
    src = open(demo).read()
    import re
    if not re.search(r"^\s*use jsonpath_rust", src, re.M):
        src = "#![allow(unused_imports)]\nuse jsonpath_rust::JsonPath;\nuse jsonpath_rust::query::js_path;\nuse serde_json::json;\n" + src
    open(os.path.join(wt, "tests", "zz_demo.rs"), "w").write(src)
    rc0, out0 = sh("cargo test --offline --test zz_demo 2>&1 | tail -15", wt)
    ok_without = "test result: ok" in out0
    rc, out = sh("git apply %s" % diff, wt)
    if rc != 0:
        print("patch does not apply:", out); sys.exit(1)
    rc1, out1 = sh("cargo test --offline --test zz_demo 2>&1 | tail -15", wt)
    fails_with = "test result: FAILED" in out1 or "panicked" in out1
    shutil.rmtree(os.path.join(wt, "tests"))
    rc2, out2 = sh("cargo test --offline 2>&1 | grep -E '^test result|FAILED|error' | head", wt)
    suite_ok = "94 passed; 0 failed" in out2
    sh("git checkout -- .", wt)
    meta["confirmed"] = {"demo_passes_without": ok_without, "demo_fails_with": fails_with, "suite_passes_with": suite_ok}
    meta["ran"] += ["cargo test --offline --test zz_demo (without, with mutation)", "cargo test --offline (with mutation)"]
    print("confirm:", meta["confirmed"])
    if not (ok_without and fails_with and suite_ok):
        print(out0[-800:], out1[-800:], out2[-800:])
        print("NOT KEPT"); sys.exit(1)
    dst = os.path.join("/verif/seeded", sid)
    os.makedirs(dst, exist_ok=True)
    shutil.copy(diff, os.path.join(dst, "patch.diff"))
    shutil.copy(demo, os.path.join(dst, "demo.rs"))
    notes = os.path.join(wt, "notes.md")
    if os.path.exists(notes):
        shutil.copy(notes, os.path.join(dst, "agent_notes.md"))
    # run the checks against /repo with the mutation applied
    rc, out = sh("git -C /repo status --porcelain")
    assert out.strip() == "", "/repo not clean: " + out
    rc, out = sh("git -C /repo apply %s" % os.path.join(dst, "patch.diff"))
    assert rc == 0, out
    results = {}
    try:
        for p in [prop] + others:
            t0 = time.time()
            rc, out = sh("./check %s --tier quick" % p, "/verif", timeout=1500)
            viol = [l for l in out.splitlines() if l.startswith("VIOLATION")]
            results[p] = {"exit": rc, "violations": viol[:3], "wall_s": round(time.time() - t0, 1)}
            print(p, "exit", rc, viol[:2])
            for v in viol[:1]:
                path = v.split("replay=")[1].split()[0]
                if os.path.exists(path):
                    d = json.load(open(path))
                    results[p]["replay_excerpt"] = {"fields": d.get("fields"), "impl": d.get("impl"), "detail": (d.get("verdict") or {}).get("detail", d.get("error"))}
    finally:
        sh("git -C /repo checkout -- .")
    meta["checks"] = results
    meta["detected_by"] = [p for p, r in results.items() if r["exit"] == 1]
    json.dump(meta, open(os.path.join(dst, "meta.json"), "w"), indent=1)
    print("detected_by:", meta["detected_by"])

main()
