#!/usr/bin/env python3
"""writes seeded/INDEX.md from seeded/*/meta.json"""
import glob, json, os
rows = []
for f in sorted(glob.glob("/verif/seeded/*/meta.json")):
    m = json.load(open(f))
    sid = m["seed_id"]
    checks = m.get("checks", {})
    rows.append((sid, m["property"], ", ".join(m.get("detected_by", [])) or "NOT CAUGHT",
                 ", ".join("%s:%s" % (p, "VIOLATION" if r["exit"] == 1 else "quiet") for p, r in checks.items())))
with open("/verif/seeded/INDEX.md", "w") as out:
    out.write("# Seeded changes\n\nEach directory holds patch.diff (git apply in /repo), demo.rs (integration test that passes without and fails with the patch), meta.json, agent_notes.md.\n\n")
    out.write("| seed | property | caught by | checks run with the patch applied |\n|---|---|---|---|\n")
    for r in rows:
        out.write("| %s | %s | %s | %s |\n" % r)
    out.write("\n%d seeds, %d caught.\n" % (len(rows), sum(1 for r in rows if r[2] != "NOT CAUGHT")))
