#!/bin/bash
# Audit, not a check: which lines of /repo/src do the quick streams of all 15 checks execute?
# Builds the harness with -C instrument-coverage (nightly toolchain, its own llvm-tools), runs every quick
# case of every check once, prints the per-file report and the uncovered lines of the evaluator and parser.
set -e
W=/verif/build/cov; rm -rf $W; mkdir -p $W
BIN=$(dirname $(rustup +nightly which rustc))/../lib/rustlib/x86_64-unknown-linux-gnu/bin
cd /verif/harness
CARGO_NET_OFFLINE=true RUSTFLAGS="-C instrument-coverage" CARGO_TARGET_DIR=$W/target cargo +nightly build --offline 2>&1 | tail -1
cd /verif
python3 - <<'PY'
import sys
sys.path.insert(0,'/verif')
from vlib import props
out = open('/verif/build/cov/cases.txt','w')
for pid, cls in props.REGISTRY.items():
    for c in cls("quick", 1).cases():
        if not (c.meta or {}).get("d17"):
            out.write(c.impl_line())
out.close()
PY
cd $W && split -n l/16 cases.txt part_
for f in part_*; do LLVM_PROFILE_FILE=$W/prof_$f.profraw timeout 900 $W/target/debug/jpharness < $f > /dev/null 2>&1 & done; wait
$BIN/llvm-profdata merge -sparse prof_*.profraw -o all.profdata
$BIN/llvm-cov report $W/target/debug/jpharness -instr-profile=all.profdata --ignore-filename-regex='(registry|harness|rustc|rustup)' | cut -c1-40,130-
for f in parser.rs query/comparison.rs query/selector.rs query/test_function.rs query/filter.rs query/segment.rs query/atom.rs query/comparable.rs query.rs; do
  echo "=== uncovered in $f"; $BIN/llvm-cov show $W/target/debug/jpharness -instr-profile=all.profdata /repo/src/$f 2>/dev/null | grep -E "^ +[0-9]+\| +0\|" | cut -c1-120
done
rm -rf $W/target $W/*.profraw $W/part_*
